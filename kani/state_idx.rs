//@target src/state.rs
// Index helpers behind nth/get/slice (C12, C08): loop free, full isize/usize domain: complete proofs.
#[cfg(kani)]
mod verif_kani {
    use super::*;

    //@harness name=c12_relative_index props=C12,C08 kind=complete
    #[kani::proof]
    fn c12_relative_index() {
        let len: usize = kani::any();
        let index: isize = kani::any();
        kani::cover!(index == isize::MIN);
        let r = relative_index(len, index);
        if index >= 0 {
            assert!(r == if (index as usize) < len { Some(index as usize) } else { None });
        } else {
            let back = index.unsigned_abs();
            assert!(r == if back <= len { Some(len - back) } else { None });
        }
    }

    //@harness name=c12_slicing_index props=C12,C08 kind=complete
    #[kani::proof]
    fn c12_slicing_index() {
        let len: usize = kani::any();
        let idx: isize = kani::any();
        kani::cover!(idx == isize::MIN);
        let r = slicing_index(idx, len);
        assert!(r <= len);
        if idx >= 0 {
            assert!(r == (idx as usize).min(len));
        } else {
            assert!(r == len - idx.unsigned_abs().min(len));
        }
    }
}
