//@target src/bitstr.rs
// C05 number <-> bits codecs, C04 bounded stand-ins, C07 composition.
// Family members have a CONCRETE width / offset / byte order (const generics) and fully symbolic
// values and backing bytes: every loop is bounded by the concrete width, unwinding assertions are
// on, so each member is a complete proof and the family is exhaustive over its stated index set.
#[cfg(kani)]
mod verif_kani {
    use super::*;

    fn ord(o: usize) -> Byteorder { if o == 1 { BIG } else { LITTLE } }

    // ---- reference semantics: functions of the bit sequence alone ----
    fn bit_of(bytes: &[u8], p: usize) -> u8 { (bytes[p / 8] >> (7 - (p % 8))) & 1 }

    // unsigned value of bits [k, k+n) of `bytes` (n <= 128)
    fn ref_uint(bytes: &[u8], k: usize, n: usize, order: Byteorder) -> u128 {
        let mut acc: u128 = 0;
        if order == BIG {
            let mut i = 0;
            while i < n { acc = (acc << 1) | bit_of(bytes, k + i) as u128; i += 1; }
        } else {
            // 8-bit groups from the start of the field; group g has weight 2^(8g); the last may be short
            let mut g = 0;
            while g * 8 < n {
                let w = if n - g * 8 < 8 { n - g * 8 } else { 8 };
                let mut v: u128 = 0;
                let mut j = 0;
                while j < w { v = (v << 1) | bit_of(bytes, k + g * 8 + j) as u128; j += 1; }
                acc |= v << (8 * g);
                g += 1;
            }
        }
        acc
    }

    fn low_bits(v: u128, n: usize) -> u128 { if n >= 128 { v } else { v & ((1u128 << n) - 1) } }
    fn sign_extend(v: u128, n: usize) -> i128 { let sh = (128 - n) as u32; ((v << sh) as i128) >> sh }

    // ---- C05: pack then unpack ----
    fn c05_rt<const W: usize, const O: usize>() {
        let val: i128 = kani::any();
        let bs = Bitstr::from_int(val, W, ord(O));
        assert!(bs.len() == W);
        assert!(bs.start() == 0);
        let u = bs.to_uint(ord(O));
        assert!(u == low_bits(val as u128, W));
        let i = bs.to_int(ord(O));
        assert!(i == sign_extend(val as u128, W));
        if W % 8 == 0 {
            // byte-multiple widths agree with the platform's standard byte layouts
            let nb = W / 8;
            let got = bs.to_bytes_with_padding();
            assert!(got.len() == nb);
            let le = val.to_le_bytes();
            let mut j = 0;
            while j < nb {
                let want = if O == 1 { le[nb - 1 - j] } else { le[j] };
                assert!(got[j] == want);
                j += 1;
            }
            std::mem::forget(got);
        }
        std::mem::forget(bs);
    }
    //@family name=c05_rt fn=c05_rt props=C05 kind=family unwind=max(22,W//8+4) W=q:1,2,7,8,9,15,16,17,31,32,33,63,64,65,127,128;t:1-128 O=0,1

    // ---- C08: widths beyond 128 bits (outside C05: the value is an i128) still pack without a panic into W bits ----
    fn c08_from_int_wide<const W: usize, const O: usize>() {
        let val: i128 = kani::any();
        let bs = Bitstr::from_int(val, W, ord(O));
        assert!(bs.len() == W);
        assert!(bs.start() == 0);
        std::mem::forget(bs);
    }
    //@family name=c08_from_int_wide fn=c08_from_int_wide props=C08 kind=family unwind=W//8+4 W=q:129,136,200,256;t:129-160,192,200,256 O=0,1

    // ---- C05: the decoded number is a function of the bit sequence alone (any offset, any stale bits) ----
    fn c05_dec<const W: usize, const K: usize, const O: usize, const NB: usize>() {
        let bytes: [u8; NB] = kani::any();
        let bs = Bitstr { range: K..K + W, data: Rc::new(Cow::Owned(bytes.to_vec())) };
        let want = ref_uint(&bytes, K, W, ord(O));
        assert!(bs.to_uint(ord(O)) == want);
        assert!(bs.to_int(ord(O)) == sign_extend(want, W));
        std::mem::forget(bs);
    }
    //@family name=c05_dec fn=c05_dec props=C05 kind=family unwind=W+3 W=q:1,7,8,9,16,17,33,64,65,128;t:1-128 K=q:0,3,7;t:0-7 O=0,1 let.NB=(K+W+7)//8+1

    // ---- C05: floats round-trip bit-exactly (NaN payloads included: compared as bits) ----
    fn c05_f32<const O: usize>() {
        let x: u32 = kani::any();
        let bs = Bitstr::from_f32(f32::from_bits(x), ord(O));
        assert!(bs.len() == 32);
        assert!(bs.to_f32(ord(O)).to_bits() == x);
        std::mem::forget(bs);
    }
    //@family name=c05_f32 fn=c05_f32 props=C05,C07 kind=family unwind=12 O=0,1
    fn c05_f64<const O: usize>() {
        let x: u64 = kani::any();
        let bs = Bitstr::from_f64(f64::from_bits(x), ord(O));
        assert!(bs.len() == 64);
        assert!(bs.to_f64(ord(O)).to_bits() == x);
        std::mem::forget(bs);
    }
    //@family name=c05_f64 fn=c05_f64 props=C05,C07 kind=family unwind=12 O=0,1

    // float decoding at bit offset K equals decoding the same 32/64 bits read as bytes
    fn c05_f32_at<const K: usize, const O: usize>() {
        let bytes: [u8; 5] = kani::any();
        let bs = Bitstr { range: K..K + 32, data: Rc::new(Cow::Owned(bytes.to_vec())) };
        let mut b = [0u8; 4];
        let mut j = 0;
        while j < 4 { b[j] = ref_uint(&bytes, K + 8 * j, 8, BIG) as u8; j += 1; }
        let want = if O == 1 { f32::from_be_bytes(b) } else { f32::from_le_bytes(b) };
        assert!(bs.to_f32(ord(O)).to_bits() == want.to_bits());
        std::mem::forget(bs);
    }
    //@family name=c05_f32_at fn=c05_f32_at props=C05,C07 kind=family unwind=12 K=q:0,1,4,7;t:0-7 O=0,1
    fn c05_f64_at<const K: usize, const O: usize>() {
        let bytes: [u8; 9] = kani::any();
        let bs = Bitstr { range: K..K + 64, data: Rc::new(Cow::Owned(bytes.to_vec())) };
        let mut b = [0u8; 8];
        let mut j = 0;
        while j < 8 { b[j] = ref_uint(&bytes, K + 8 * j, 8, BIG) as u8; j += 1; }
        let want = if O == 1 { f64::from_be_bytes(b) } else { f64::from_le_bytes(b) };
        assert!(bs.to_f64(ord(O)).to_bits() == want.to_bits());
        std::mem::forget(bs);
    }
    //@family name=c05_f64_at fn=c05_f64_at props=C05,C07 kind=family unwind=12 K=q:0,1,4,7;t:0-7 O=0,1

    //@harness name=c05_to_int_empty props=C05,C08 kind=complete
    #[kani::proof]
    #[kani::unwind(4)]
    fn c05_to_int_empty() {
        let bytes: [u8; 1] = kani::any();
        let k: usize = kani::any();
        kani::assume(k <= 8);
        let bs = Bitstr { range: k..k, data: Rc::new(Cow::Owned(bytes.to_vec())) };
        assert!(bs.to_int(BIG) == 0 && bs.to_int(LITTLE) == 0 && bs.to_uint(BIG) == 0 && bs.to_uint(LITTLE) == 0);
        std::mem::forget(bs);
    }

    // ================= C04 bounded stand-ins =================
    // Functions Verus cannot take verbatim (iterator adapter chains, chars()): checked by Kani on a
    // 3-byte backing buffer with symbolic contents (so stale bits outside the range are arbitrary),
    // for CONCRETE ranges S..E.  BOUNDED: buffers longer than 3 bytes are not covered.
    fn mk<const S: usize, const E: usize>(bytes: &[u8; 3]) -> Bitstr {
        Bitstr { range: S..E, data: Rc::new(Cow::Owned(bytes.to_vec())) }
    }

    // detach with a second owner alive: same bits, starts at 0, padding bits are zero
    fn c04_detach<const S: usize, const E: usize>() {
        let bytes: [u8; 3] = kani::any();
        let bs = mk::<S, E>(&bytes);
        let keep = bs.clone();
        let d = bs.detach();
        assert!(d.len() == E - S);
        let mut i = 0;
        while i < E - S {
            assert!(bit_of(&d.data, d.start() + i) == bit_of(&bytes, S + i));
            i += 1;
        }
        if E > S {
            assert!(d.start() == 0);
            assert!(d.data.len() == upper_bound_index(E - S));
            let mut p = E - S;
            while p < 8 * d.data.len() { assert!(bit_of(&d.data, p) == 0); p += 1; }
        }
        // the other owner is untouched
        assert!(keep.range.start == S && keep.range.end == E && keep.data[0] == bytes[0] && keep.data[1] == bytes[1] && keep.data[2] == bytes[2]);
        std::mem::forget(d); std::mem::forget(keep);
    }
    //@family name=c04_detach fn=c04_detach props=C04 kind=bounded unwind=26 S=q:0,3,8,13;t:0-24 E=q:0,3,8,11,16,21,24;t:0-24 skip=S>E

    // uniquely owned: detach returns the value itself
    fn c04_detach_unique<const S: usize, const E: usize>() {
        let bytes: [u8; 3] = kani::any();
        let bs = mk::<S, E>(&bytes);
        let d = bs.detach();
        assert!(d.range.start == S && d.range.end == E);
        assert!(d.data[0] == bytes[0] && d.data[1] == bytes[1] && d.data[2] == bytes[2]);
        std::mem::forget(d);
    }
    //@family name=c04_detach_unique fn=c04_detach_unique props=C04 kind=bounded unwind=8 S=q:0,5;t:0,5,8,13 E=q:5,16;t:5,16,24 skip=S>E

    // equality is equality of the bit sequences, whatever the offsets (S1..E1 vs S2..E2 of equal length)
    fn c04_eq<const S1: usize, const S2: usize, const N: usize>() {
        let a: [u8; 3] = kani::any();
        let b: [u8; 3] = kani::any();
        let x = Bitstr { range: S1..S1 + N, data: Rc::new(Cow::Owned(a.to_vec())) };
        let y = Bitstr { range: S2..S2 + N, data: Rc::new(Cow::Owned(b.to_vec())) };
        let mut same = true;
        let mut i = 0;
        while i < N { if bit_of(&a, S1 + i) != bit_of(&b, S2 + i) { same = false; } i += 1; }
        assert!(x.eq_with(&y) == same);
        assert!((x == y) == same);
        std::mem::forget(x); std::mem::forget(y);
    }
    //@family name=c04_eq fn=c04_eq props=C04 kind=bounded unwind=20 S1=q:0,3;t:0,3,8 S2=q:0,5;t:0,5,8 N=q:0,1,8,11,16;t:0-16

    //@harness name=c04_eq_len_differs props=C04 kind=bounded
    #[kani::proof]
    #[kani::unwind(6)]
    fn c04_eq_len_differs() {
        let a: [u8; 3] = kani::any();
        let (s1, e1, s2, e2): (usize, usize, usize, usize) = (kani::any(), kani::any(), kani::any(), kani::any());
        kani::assume(s1 <= e1 && e1 <= 24 && s2 <= e2 && e2 <= 24 && e1 - s1 != e2 - s2);
        let x = Bitstr { range: s1..e1, data: Rc::new(Cow::Owned(a.to_vec())) };
        let y = Bitstr { range: s2..e2, data: Rc::new(Cow::Owned(a.to_vec())) };
        assert!(!x.eq_with(&y));
        std::mem::forget(x); std::mem::forget(y);
    }

    // byte export: to_bytes / bytestr / to_bytes_with_padding give the bytes of the bit sequence
    fn c04_bytes<const S: usize, const E: usize>() {
        let bytes: [u8; 3] = kani::any();
        let bs = mk::<S, E>(&bytes);
        let n = E - S;
        let p = bs.to_bytes_with_padding();
        assert!(p.len() == upper_bound_index(n));
        let mut j = 0;
        while j < p.len() {
            let w = if n - 8 * j < 8 { n - 8 * j } else { 8 };
            // group j: w bits, right aligned
            assert!(p[j] as u128 == ref_uint(&bytes, S + 8 * j, w, BIG));
            j += 1;
        }
        let tb = bs.to_bytes();
        let bstr = bs.bytestr();
        if n % 8 == 0 {
            let tb = tb.unwrap();
            let bstr = bstr.unwrap();
            assert!(tb.len() == n / 8 && bstr.len() == n / 8);
            let mut j = 0;
            while j < n / 8 {
                let want = ref_uint(&bytes, S + 8 * j, 8, BIG) as u8;
                assert!(tb[j] == want && bstr[j] == want);
                j += 1;
            }
            std::mem::forget(tb); std::mem::forget(bstr);
        } else {
            assert!(tb.is_none() && bstr.is_none());
        }
        std::mem::forget(p); std::mem::forget(bs);
    }
    //@family name=c04_bytes fn=c04_bytes props=C04,C18 kind=bounded unwind=12 S=q:0,3,8;t:0-16 E=q:3,8,11,16,19,24;t:0-24 skip=S>E

    // hex export: one digit per 4-bit group of each 8-bit group (a short last group prints 1 or 2 digits)
    fn c04_hex<const S: usize, const E: usize>() {
        let bytes: [u8; 3] = kani::any();
        let bs = mk::<S, E>(&bytes);
        let n = E - S;
        let h = bs.to_hex_string();
        let hb = h.as_bytes();
        let mut k = 0;       // index into hb
        let mut j = 0;
        while 8 * j < n {
            let w = if n - 8 * j < 8 { n - 8 * j } else { 8 };
            let v = ref_uint(&bytes, S + 8 * j, w, BIG) as u32;
            if w > 4 {
                assert!(hb[k] == b"0123456789abcdef"[(v >> 4) as usize]); k += 1;
            }
            assert!(hb[k] == b"0123456789abcdef"[(v & 0xf) as usize]); k += 1;
            j += 1;
        }
        assert!(k == hb.len());
        std::mem::forget(h); std::mem::forget(bs);
    }
    //@family name=c04_hex fn=c04_hex props=C04 kind=bounded unwind=12 S=q:0,3;t:0,3,5 E=q:3,8,11;t:3,8,11,13,16,19 skip=S>E

    // ================= C07: construction is the inverse of parsing =================
    // three integer fields of concrete widths (so the 2nd and 3rd start at every alignment), values
    // symbolic: pack, concatenate, then parse back in the same byte order.
    fn c07_fields<const W1: usize, const W2: usize, const W3: usize, const O: usize>() {
        let v1: i128 = kani::any();
        let v2: i128 = kani::any();
        let v3: i128 = kani::any();
        let o = ord(O);
        let all = Bitstr::from_int(v1, W1, o).append(&Bitstr::from_int(v2, W2, o)).append(&Bitstr::from_int(v3, W3, o));
        // length is the sum of the field widths
        assert!(all.len() == W1 + W2 + W3);
        let mut rest = all;
        let f1 = rest.read(W1).unwrap();
        let f2 = rest.read(W2).unwrap();
        let f3 = rest.read(W3).unwrap();
        assert!(f1.to_uint(o) == low_bits(v1 as u128, W1));
        assert!(f2.to_int(o) == sign_extend(v2 as u128, W2));
        assert!(f3.to_uint(o) == low_bits(v3 as u128, W3));
        // ... and nothing remains
        assert!(rest.len() == 0);
        std::mem::forget(f1); std::mem::forget(f2); std::mem::forget(f3); std::mem::forget(rest);
    }
    //@family name=c07_fields fn=c07_fields props=C07 kind=family unwind=40 W1=q:1,4,7,8;t:1-9 W2=q:3,13;t:3,8,13 W3=q:5;t:5,16 O=0,1
}
