//@target src/opcodes.rs
// Jump codec (C01 layer 1): decoding a jump at its origin yields the destination.  Loop free, full
// domain of code addresses that fit the i32 encoding: a complete proof.
#[cfg(kani)]
mod verif_kani {
    use super::*;

    //@harness name=c01_jump_codec_inverse props=C01 kind=complete
    #[kani::proof]
    fn c01_jump_codec_inverse() {
        let origin: usize = kani::any();
        let dest: usize = kani::any();
        kani::assume(origin <= (1usize << 30) && dest <= (1usize << 30));
        kani::cover!(origin == dest);
        let rel = RelativeJump::from_to(origin, dest);
        assert!(rel.calculate(origin) == dest);
    }

    //@harness name=c01_jump_uninit_is_zero props=C01 kind=complete
    #[kani::proof]
    fn c01_jump_uninit_is_zero() {
        let ip: usize = kani::any();
        kani::assume(ip <= (1usize << 30));
        assert!(RelativeJump::uninit().calculate(ip) == ip);
    }
}
