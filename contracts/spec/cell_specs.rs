// ================= spec vocabulary for cells (C13, C09) =================
// the value without its tag wrapper: what every word other than the tag words must depend on
spec fn strip(c: Cell) -> Cell {
    match c { Cell::WithTag(rc) => rc.value, _ => c }
}

// the tag map attached to a cell (the empty map if it has none)
spec fn tags_of(c: Cell) -> Xmap {
    match c { Cell::WithTag(rc) => rc.tags, _ => xmap_empty() }
}

// e is the type error reporting exactly `val`
spec fn type_err_of(e: Xerr, val: Cell) -> bool {
    e is TypeErrorMsg && e->TypeErrorMsg_val == val
}

// R6: `T::try_from(i).map_err(|_| Xerr::IntegerOverflow)` (closure with a `_` parameter is outside
// the Verus dialect): the checked conversion with the std-documented meaning
#[verifier::external_body]
fn verif_isize_try_from(i: i128) -> (r: Xresult1<isize>)
    ensures isize::MIN <= i <= isize::MAX ==> r is Ok && r->Ok_0 == i, !(isize::MIN <= i <= isize::MAX) ==> r is Err && r->Err_0 is IntegerOverflow
{ unimplemented!() }
#[verifier::external_body]
fn verif_usize_try_from(i: i128) -> (r: Xresult1<usize>)
    ensures 0 <= i <= usize::MAX ==> r is Ok && r->Ok_0 == i, !(0 <= i <= usize::MAX) ==> r is Err && r->Err_0 is IntegerOverflow
{ unimplemented!() }
