// ================= spec vocabulary for cells (C13, C09) =================
// the value without its tag wrapper: what every word other than the tag words must depend on
spec fn strip(c: Cell) -> Cell {
    match c { Cell::WithTag(rc) => rc.value, _ => c }
}

// e is the type error reporting exactly `val`
spec fn type_err_of(e: Xerr, val: Cell) -> bool {
    e is TypeErrorMsg && e->TypeErrorMsg_val == val
}
