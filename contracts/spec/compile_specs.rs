// ================= spec vocabulary for the compiler side (C01 layer 2, C10, C11, C17) =================
spec fn is_jump_kind(op: Opcode) -> bool {
    op is Jump || op is JumpIf || op is JumpIfNot || op is CaseOf
}

// where a (patched) jump instruction at `at` lands
spec fn jump_target(op: Opcode, at: int) -> int {
    match op {
        Opcode::Jump(r) => at + r.0,
        Opcode::JumpIf(r) => at + r.0,
        Opcode::JumpIfNot(r) => at + r.0,
        Opcode::CaseOf(r) => at + r.0,
        Opcode::Do(r) => at + r.0,
        Opcode::Loop(r) => at + r.0,
        Opcode::Break(r) => at + r.0,
        _ => at + 1,
    }
}

spec fn same_kind(a: Opcode, b: Opcode) -> bool {
    (a is Jump && b is Jump) || (a is JumpIf && b is JumpIf) || (a is JumpIfNot && b is JumpIfNot) || (a is CaseOf && b is CaseOf)
}

// a pending-flow entry refers to the placeholder instruction its closing word will patch
spec fn flow_entry_ok(f: Flow, code: Seq<Opcode>) -> bool {
    match f {
        Flow::If(o) => o < code.len() && code[o as int] is JumpIfNot,
        Flow::Else(o) => o < code.len() && code[o as int] is Jump,
        Flow::While(o) => o < code.len() && code[o as int] is JumpIfNot,
        Flow::Break(o) => o < code.len() && code[o as int] is Jump,
        Flow::CaseOf(o) => o < code.len() && code[o as int] is CaseOf,
        Flow::CaseEndOf(o) => o < code.len() && code[o as int] is Jump,
        Flow::Begin(o) => o <= code.len(),
        Flow::Do { for_org, body_org } => for_org < code.len() && body_org == for_org + 1 && body_org <= code.len() && code[for_org as int] is Do,
        Flow::Fun(ff) => ff.start < code.len() && code[ff.start as int] is Jump,
        _ => true,
    }
}

// the placeholder cell a pending-flow entry owns (its closing word will patch it)
spec fn ph(f: Flow) -> Option<usize> {
    match f {
        Flow::If(o) => Some(o), Flow::Else(o) => Some(o), Flow::While(o) => Some(o), Flow::Break(o) => Some(o),
        Flow::CaseOf(o) => Some(o), Flow::CaseEndOf(o) => Some(o),
        Flow::Do { for_org, body_org } => Some(for_org),
        Flow::Fun(ff) => Some(ff.start),
        _ => None,
    }
}

spec fn is_load(op: Opcode) -> bool {
    op is LoadI64 || op is LoadStr || op is LoadNil || op is LoadCell
}

// variant index of an opcode (what a backpatch preserves)
spec fn opk(op: Opcode) -> int {
    match op {
        Opcode::Nop => 0, Opcode::Call(_) => 1, Opcode::Resolve(_) => 2, Opcode::NativeCall(_) => 3, Opcode::Ret => 4,
        Opcode::JumpIf(_) => 5, Opcode::JumpIfNot(_) => 6, Opcode::Jump(_) => 7, Opcode::Do(_) => 8, Opcode::Break(_) => 9,
        Opcode::Loop(_) => 10, Opcode::CaseOf(_) => 11, Opcode::Load(_) => 12, Opcode::LoadNil => 13, Opcode::LoadI64(_) => 14,
        Opcode::LoadF64(_) => 15, Opcode::LoadStr(_) => 16, Opcode::LoadCell(_) => 17, Opcode::Store(_) => 18,
        Opcode::InitLocal(_) => 19, Opcode::LoadLocal(_) => 20,
    }
}

// c2 extends c1 and keeps the kind of every old cell (cells may have been backpatched)
spec fn kinds_kept(c1: Seq<Opcode>, c2: Seq<Opcode>) -> bool {
    c1.len() <= c2.len() && forall|k: int| 0 <= k < c1.len() ==> opk(#[trigger] c2[k]) == opk(c1[k])
}

proof fn lemma_flow_entry_kept(f: Flow, c1: Seq<Opcode>, c2: Seq<Opcode>)
    requires flow_entry_ok(f, c1), kinds_kept(c1, c2)
    ensures flow_entry_ok(f, c2)
{
    match f {
        Flow::If(o) => { assert(opk(c2[o as int]) == opk(c1[o as int])); }
        Flow::Else(o) => { assert(opk(c2[o as int]) == opk(c1[o as int])); }
        Flow::While(o) => { assert(opk(c2[o as int]) == opk(c1[o as int])); }
        Flow::Break(o) => { assert(opk(c2[o as int]) == opk(c1[o as int])); }
        Flow::CaseOf(o) => { assert(opk(c2[o as int]) == opk(c1[o as int])); }
        Flow::CaseEndOf(o) => { assert(opk(c2[o as int]) == opk(c1[o as int])); }
        Flow::Do { for_org, body_org } => { assert(opk(c2[for_org as int]) == opk(c1[for_org as int])); }
        Flow::Fun(ff) => { assert(opk(c2[ff.start as int]) == opk(c1[ff.start as int])); }
        _ => {}
    }
}

// a cell that no remaining entry owns may change arbitrarily
proof fn lemma_flow_entry_kept_except(f: Flow, c1: Seq<Opcode>, c2: Seq<Opcode>, at: int)
    requires
        flow_entry_ok(f, c1), c2.len() == c1.len(),
        forall|k: int| 0 <= k < c1.len() && k != at ==> c2[k] == c1[k],
        ph(f) != Some(at as usize), 0 <= at < c1.len(),
    ensures flow_entry_ok(f, c2)
{
}

// the cell at `at` was backpatched to land on `target`; its kind and every other cell are as before
spec fn patched(c1: Seq<Opcode>, c2: Seq<Opcode>, at: int, target: int) -> bool {
    &&& 0 <= at < c1.len() && c2.len() == c1.len()
    &&& opk(c2[at]) == opk(c1[at])
    &&& jump_target(c2[at], at) == target
    &&& forall|i: int| 0 <= i < c1.len() && i != at ==> c2[i] == c1[i]
}

// index of the entry take_first_cond_flow removes: scanning down from the top, skip Break entries,
// stop at the first conditional entry (found) or at anything else / the context base (not found: -1)
spec fn tfc_index(fl: Seq<Flow>, lo: int, i: int) -> int
    decreases i - lo
{
    if i <= lo {
        -1
    } else {
        let f = fl[i - 1];
        if f is If || f is Else || f is Case || f is CaseOf || f is CaseEndOf {
            i - 1
        } else if f is Break {
            tfc_index(fl, lo, i - 1)
        } else {
            -1
        }
    }
}

proof fn lemma_tfc_index(fl: Seq<Flow>, lo: int, i: int)
    requires 0 <= lo, i <= fl.len()
    ensures ({
        let r = tfc_index(fl, lo, i);
        r == -1 || (lo <= r < i
            && (fl[r] is If || fl[r] is Else || fl[r] is Case || fl[r] is CaseOf || fl[r] is CaseEndOf)
            && (forall|j: int| r < j < i ==> fl[j] is Break))
    })
    decreases i - lo
{
    if i > lo {
        let f = fl[i - 1];
        if f is Break {
            lemma_tfc_index(fl, lo, i - 1);
        }
    }
}

impl State {
    // compiler invariant: the debug map covers the code, code addresses fit the jump encoding,
    // every pending flow entry points at its placeholder
    spec fn cinv(&self) -> bool {
        &&& self.code@.len() <= self.debug_map@.len()
        &&& self.code@.len() <= 0x3fff_fff0
        &&& self.ctx.fs_len <= self.flow_stack@.len()
        &&& forall|i: int| self.ctx.fs_len <= i < self.flow_stack@.len() ==> flow_entry_ok(#[trigger] self.flow_stack@[i], self.code@)
        // no two pending entries own the same placeholder
        &&& forall|i: int, j: int| self.ctx.fs_len <= i < j < self.flow_stack@.len()
                && ph(#[trigger] self.flow_stack@[i]) is Some && ph(#[trigger] self.flow_stack@[j]) is Some
                ==> ph(self.flow_stack@[i]) != ph(self.flow_stack@[j])
    }

    // the pending flow entries of the current context
    spec fn flows(&self) -> Seq<Flow> {
        self.flow_stack@.subrange(self.ctx.fs_len as int, self.flow_stack@.len() as int)
    }

    // frame of the compiler words: only code, debug map and flow stack change
    spec fn comp_frame(&self, o: &State) -> bool {
        *o == (State { code: o.code, debug_map: o.debug_map, flow_stack: o.flow_stack, ..*self })
    }
}

// index of the innermost open definition of the current context (-1: none)
spec fn top_fun_from(fs: Seq<Flow>, lo: int, k: int) -> int
    decreases k - lo
{
    if k <= lo { -1 } else if fs[k - 1] is Fun { k - 1 } else { top_fun_from(fs, lo, k - 1) }
}
spec fn top_fun(s: &State) -> int { top_fun_from(s.flow_stack@, s.ctx.fs_len as int, s.flow_stack@.len() as int) }

// what build0 does with an error `e` of build1 that left the state `mid`
spec fn build0_err(mid: State, fin: State, e: Xerr) -> bool {
    if mid.last_error is Some {
        // already attributed (run-time error inside the source): kept as it is
        fin == mid
    } else {
        fin.last_error is Some && fin.last_error->0.err == e
        && fin.last_token is None
        && (mid.last_token is None ==> fin.last_error->0.location is None)
        && (mid.last_token is Some ==> fin.last_error->0.location == token_location_spec(mid.sources@, mid.last_token->0))
        && fin == (State { last_error: fin.last_error, last_token: None, ..mid })
    }
}
pub uninterp spec fn build1_post(s: State) -> State;
