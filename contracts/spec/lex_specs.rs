// ---- what a token location is, over the characters of the source text
pub open spec fn is_nl(c: char) -> bool { c == '\n' || c == '\r' }

// number of '\n' among the first k characters
pub open spec fn count_lf(s: Seq<char>, k: int) -> int
    decreases k
{
    if k <= 0 { 0 } else { count_lf(s, k - 1) + if s[k - 1] == '\n' { 1int } else { 0int } }
}

// first character of the line that holds character position k (a line break ends its line)
pub open spec fn line_start(s: Seq<char>, k: int) -> int
    decreases k
{
    if k <= 0 { 0 } else if is_nl(s[k - 1]) { k } else { line_start(s, k - 1) }
}

// the line break that ends the line holding position k (or the end of the text)
pub open spec fn line_end(s: Seq<char>, k: int) -> int
    decreases s.len() - k
{
    if k >= s.len() { s.len() as int } else if is_nl(s[k]) { k } else { line_end(s, k + 1) }
}

// the token starts at character kt of its parent
pub open spec fn tok_char(t: Xsubstr, kt: int) -> bool {
    0 <= kt <= xtext(sub_parent(t)).len() && off(xtext(sub_parent(t)), kt) == sub_lo(t)
}

pub proof fn lemma_off_mono(s: Seq<char>, i: int, j: int)
    requires 0 <= i <= j <= s.len()
    ensures off(s, i) <= off(s, j), i < j ==> off(s, i) < off(s, j), off(s, i) >= 0
    decreases j
{
    if i < j { lemma_off_mono(s, i, j - 1); }
    else { if i > 0 { lemma_off_mono(s, i - 1, i - 1); } }
}

pub proof fn lemma_line_bounds(s: Seq<char>, k: int)
    requires 0 <= k <= s.len()
    ensures 0 <= line_start(s, k) <= k, k <= line_end(s, k) <= s.len()
{
    lemma_line_start_bound(s, k);
    lemma_line_end_bound(s, k);
}

pub proof fn lemma_line_start_bound(s: Seq<char>, k: int)
    requires 0 <= k
    ensures 0 <= line_start(s, k) <= k
    decreases k
{
    if k > 0 && !is_nl(s[k - 1]) { lemma_line_start_bound(s, k - 1); }
}

pub proof fn lemma_line_end_bound(s: Seq<char>, k: int)
    requires 0 <= k <= s.len()
    ensures k <= line_end(s, k) <= s.len()
    decreases s.len() - k
{
    if k < s.len() && !is_nl(s[k]) { lemma_line_end_bound(s, k + 1); }
}

pub proof fn lemma_off_ge(s: Seq<char>, k: int)
    requires 0 <= k <= s.len()
    ensures off(s, k) >= k
    decreases k
{
    if k > 0 { lemma_off_ge(s, k - 1); }
}

// a byte offset names at most one character index
pub proof fn lemma_off_unique(s: Seq<char>, k: int, b: int)
    requires 0 <= k <= s.len(), off(s, k) == b
    ensures forall|j: int| 0 <= j <= s.len() && off(s, j) == b ==> j == k
{
    assert forall|j: int| 0 <= j <= s.len() && off(s, j) == b implies j == k by {
        if j < k { lemma_off_mono(s, j, k); } else if j > k { lemma_off_mono(s, k, j); }
    }
}
