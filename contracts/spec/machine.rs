// ================= spec vocabulary: machine state, reverse log, undo semantics =================
// The machine state a reverse step must restore (C02): instruction pointer, data stack, call
// frames with their locals, loop stack, vector-builder marks, heap (= every variable).
pub struct FrameV {
    pub fn_addr: usize,
    pub return_to: usize,
    pub locals: Seq<Cell>,
}

pub struct Mach {
    pub ip: usize,
    pub ds: Seq<Cell>,
    pub rs: Seq<FrameV>,
    pub ls: Seq<Loop>,
    pub ss: Seq<Special>,
    pub hp: Seq<Cell>,
}

// stack bases of the current context: a primitive never reaches below them
pub struct Bases {
    pub ds: int,
    pub rs: int,
    pub ls: int,
    pub ss: int,
}

spec fn frame_v(f: Frame) -> FrameV {
    FrameV { fn_addr: f.fn_addr, return_to: f.return_to, locals: f.locals@ }
}

spec fn frames_v(s: Seq<Frame>) -> Seq<FrameV> {
    s.map_values(|f: Frame| frame_v(f))
}

// core::ops::Range<isize>::next (advance by one unless empty)
spec fn range_next(r: Range<isize>) -> Range<isize> {
    if r.start < r.end { Range { start: (r.start + 1) as isize, end: r.end } } else { r }
}

// What a recorded entry means: the machine it leaves, plus the entries undoing it appends to the
// log (only OverData does: it re-enters drop_data, which records).  None = reverse_changes fails.
spec fn undo(m: Mach, c: Bases, r: ReverseStep) -> Option<(Mach, Seq<ReverseStep>)> {
    match r {
        ReverseStep::SetIp(ip) => Some((Mach { ip: ip, ..m }, Seq::empty())),
        ReverseStep::PopData =>
            if m.ds.len() > c.ds { Some((Mach { ds: m.ds.drop_last(), ..m }, Seq::empty())) } else { None },
        ReverseStep::PushData(v) => Some((Mach { ds: m.ds.push(v), ..m }, Seq::empty())),
        ReverseStep::SwapData =>
            if m.ds.len() - c.ds >= 2 {
                let n = m.ds.len() as int;
                Some((Mach { ds: m.ds.update(n - 1, m.ds[n - 2]).update(n - 2, m.ds[n - 1]), ..m }, Seq::empty()))
            } else { None },
        ReverseStep::RotData =>
            if m.ds.len() - c.ds >= 3 {
                let n = m.ds.len() as int;
                Some((Mach { ds: m.ds.update(n - 1, m.ds[n - 3]).update(n - 3, m.ds[n - 1]), ..m }, Seq::empty()))
            } else { None },
        ReverseStep::OverData =>
            if m.ds.len() > c.ds {
                Some((Mach { ds: m.ds.drop_last(), ..m }, seq![ReverseStep::PushData(m.ds.last())]))
            } else { None },
        ReverseStep::PopReturn =>
            if m.rs.len() > c.rs { Some((Mach { rs: m.rs.drop_last(), ..m }, Seq::empty())) } else { None },
        ReverseStep::PushReturn(f) => Some((Mach { rs: m.rs.push(frame_v(f)), ..m }, Seq::empty())),
        ReverseStep::PushLoop(l) => Some((Mach { ls: m.ls.push(l), ..m }, Seq::empty())),
        ReverseStep::PopLoop =>
            if m.ls.len() > c.ls { Some((Mach { ls: m.ls.drop_last(), ..m }, Seq::empty())) } else { None },
        ReverseStep::LoopNextBack(l) =>
            if m.ls.len() > c.ls { Some((Mach { ls: m.ls.update(m.ls.len() - 1, l), ..m }, Seq::empty())) } else { None },
        ReverseStep::PushSpecial(x) => Some((Mach { ss: m.ss.push(x), ..m }, Seq::empty())),
        ReverseStep::PopSpecial =>
            if m.ss.len() > c.ss { Some((Mach { ss: m.ss.drop_last(), ..m }, Seq::empty())) } else { None },
        ReverseStep::DropLocal(_) =>
            if m.rs.len() > c.rs {
                let f = m.rs.last();
                let l2 = if f.locals.len() > 0 { f.locals.drop_last() } else { f.locals };
                Some((Mach { rs: m.rs.update(m.rs.len() - 1, FrameV { locals: l2, ..f }), ..m }, Seq::empty()))
            } else { None },
        ReverseStep::SetLocal(i, v) =>
            if m.rs.len() > c.rs {
                let f = m.rs.last();
                let l2 = if i < f.locals.len() { f.locals.update(i as int, v) } else { f.locals };
                Some((Mach { rs: m.rs.update(m.rs.len() - 1, FrameV { locals: l2, ..f }), ..m }, Seq::empty()))
            } else { None },
        ReverseStep::SwapRef(cref, val) =>
            if cref.0 < m.hp.len() { Some((Mach { hp: m.hp.update(cref.0 as int, val), ..m }, Seq::empty())) } else { None },
    }
}

// Undo the last n entries of the log the way rnext does (pop one, apply it, repeat).  None if
// the log runs out, an entry fails, or an entry is a SetIp (instruction boundary).
spec fn undo_n(m: Mach, log: Seq<ReverseStep>, c: Bases, n: nat) -> Option<(Mach, Seq<ReverseStep>)>
    decreases n
{
    if n == 0 {
        Some((m, log))
    } else if log.len() == 0 {
        None
    } else if log.last() is SetIp {
        None
    } else {
        match undo(m, c, log.last()) {
            Some((m1, extra)) => undo_n(m1, log.drop_last() + extra, c, (n - 1) as nat),
            None => None,
        }
    }
}

proof fn lemma_undo_n_add(m: Mach, log: Seq<ReverseStep>, c: Bases, a: nat, b: nat)
    requires undo_n(m, log, c, a) is Some
    ensures undo_n(m, log, c, a + b) == undo_n((undo_n(m, log, c, a)->0).0, (undo_n(m, log, c, a)->0).1, c, b)
    decreases a
{
    if a == 0 {
    } else {
        let (m1, extra) = undo(m, c, log.last())->0;
        lemma_undo_n_add(m1, log.drop_last() + extra, c, (a - 1) as nat, b);
        assert((a + b - 1) as nat == (a - 1) as nat + b);
    }
}

// entries other than SetIp never move the instruction pointer
proof fn lemma_undo_n_ip(m: Mach, log: Seq<ReverseStep>, c: Bases, n: nat)
    requires undo_n(m, log, c, n) is Some
    ensures (undo_n(m, log, c, n)->0).0.ip == m.ip
    decreases n
{
    if n > 0 {
        let (m1, extra) = undo(m, c, log.last())->0;
        lemma_undo_n_ip(m1, log.drop_last() + extra, c, (n - 1) as nat);
    }
}

// `over` ( a b -- a b a ) records OverData then PopData; undoing them takes three steps
// (PopData, OverData - which drops b and records PushData(b) - and that PushData)
proof fn lemma_over_undo(m: Mach, l0: Seq<ReverseStep>, c: Bases)
    requires m.ds.len() - c.ds >= 2, c.ds >= 0
    ensures
        undo_n(Mach { ds: m.ds.push(m.ds[m.ds.len() - 2]), ..m }, l0.push(ReverseStep::OverData).push(ReverseStep::PopData), c, 3) == Some((m, l0)),
        undo_n(m, l0.push(ReverseStep::OverData), c, 2) == Some((m, l0)),
{
    reveal_with_fuel(undo_n, 5);
    let d = m.ds;
    let m3 = Mach { ds: d.push(d[d.len() - 2]), ..m };
    let l2 = l0.push(ReverseStep::OverData).push(ReverseStep::PopData);
    assert(m3.ds.drop_last() =~= d);
    assert(l2.drop_last() + Seq::<ReverseStep>::empty() =~= l0.push(ReverseStep::OverData));
    assert(d.drop_last().push(d.last()) =~= d);
    assert(l0.push(ReverseStep::OverData).drop_last() + seq![ReverseStep::PushData(d.last())] =~= l0.push(ReverseStep::PushData(d.last())));
    assert(l0.push(ReverseStep::PushData(d.last())).drop_last() + Seq::<ReverseStep>::empty() =~= l0);
}
