// ================= spec vocabulary for the arithmetic words (C09) =================
// the two operands of a binary word ( a b -- c ): b is on top; tags stripped
spec fn bin_args(s: &State) -> bool { s.data_stack@.len() - s.ctx.ds_len >= 2 }
spec fn arg_b(s: &State) -> Cell { strip(s.data_stack@[s.data_stack@.len() - 1]) }
spec fn arg_a(s: &State) -> Cell { strip(s.data_stack@[s.data_stack@.len() - 2]) }
spec fn raw_b(s: &State) -> Cell { s.data_stack@[s.data_stack@.len() - 1] }
spec fn bin_ints(s: &State) -> bool { bin_args(s) && arg_a(s) is Int && arg_b(s) is Int }
spec fn bin_reals(s: &State) -> bool { bin_args(s) && arg_a(s) is Real && arg_b(s) is Real }
spec fn un_arg(s: &State) -> bool { s.data_stack@.len() - s.ctx.ds_len >= 1 }
spec fn arg_x(s: &State) -> Cell { strip(s.data_stack@[s.data_stack@.len() - 1]) }

spec fn room(s: &State, n: int) -> bool {
    s.data_stack@.len() - n < (match s.stack_limit { Some(l) => l as int, None => usize::MAX as int })
}

// shape of every binary word: fewer than two visible operands -> StackUnderflow-style error;
// exactly the two operands are consumed and one result is produced; nothing below is touched;
// a result never carries tags
spec fn bin_shape(old: &State, new: &State, r: Xresult) -> bool {
    &&& !bin_args(old) ==> r is Err
    &&& r is Ok ==> bin_args(old) && new.data_stack@.len() == old.data_stack@.len() - 1
            && (forall|i: int| 0 <= i < old.data_stack@.len() - 2 ==> new.data_stack@[i] == old.data_stack@[i])
            && !(new.data_stack@.last() is WithTag)
    &&& r is Err ==> new.data_stack@.len() <= old.data_stack@.len()
            && (forall|i: int| 0 <= i < new.data_stack@.len() ==> new.data_stack@[i] == old.data_stack@[i])
}

// the same without the no-tags clause (words that return an element of a collection)
spec fn bin_shape_any(old: &State, new: &State, r: Xresult) -> bool {
    &&& !bin_args(old) ==> r is Err
    &&& r is Ok ==> bin_args(old) && new.data_stack@.len() == old.data_stack@.len() - 1
            && (forall|i: int| 0 <= i < old.data_stack@.len() - 2 ==> new.data_stack@[i] == old.data_stack@[i])
    &&& r is Err ==> new.data_stack@.len() <= old.data_stack@.len()
            && (forall|i: int| 0 <= i < new.data_stack@.len() ==> new.data_stack@[i] == old.data_stack@[i])
}

spec fn un_shape(old: &State, new: &State, r: Xresult) -> bool {
    &&& !un_arg(old) ==> r is Err
    &&& r is Ok ==> un_arg(old) && new.data_stack@.len() == old.data_stack@.len()
            && (forall|i: int| 0 <= i < old.data_stack@.len() - 1 ==> new.data_stack@[i] == old.data_stack@[i])
            && !(new.data_stack@.last() is WithTag)
    &&& r is Err ==> new.data_stack@.len() <= old.data_stack@.len()
            && (forall|i: int| 0 <= i < new.data_stack@.len() ==> new.data_stack@[i] == old.data_stack@[i])
}

// two's complement wrap of a sum/difference of two i128 values (at most one wrap is needed)
pub open spec fn wrap128(x: int) -> i128 {
    let m = 2 * (i128::MAX as int + 1);      // 2^128
    if x > i128::MAX { (x - m) as i128 } else if x < i128::MIN { (x + m) as i128 } else { x as i128 }
}

// truncating division / remainder with the sign of the dividend, on mathematical integers
pub open spec fn trunc_div(a: int, b: int) -> i128 {
    let q = if (a >= 0) == (b > 0) { (if a >= 0 { a } else { -a }) / (if b > 0 { b } else { -b }) }
            else { -((if a >= 0 { a } else { -a }) / (if b > 0 { b } else { -b })) };
    wrap128(q)
}
pub open spec fn trunc_rem(a: int, b: int) -> i128 {
    let m = (if a >= 0 { a } else { -a }) % (if b > 0 { b } else { -b });
    (if a >= 0 { m } else { -m }) as i128
}

pub assume_specification [ <i128>::checked_neg ] (a: i128) -> (r: Option<i128>)
    ensures a == i128::MIN ==> r is None, a != i128::MIN ==> r == Some((0 - a) as i128);
pub assume_specification [ <i128>::checked_abs ] (a: i128) -> (r: Option<i128>)
    ensures a == i128::MIN ==> r is None, a != i128::MIN ==> r == Some(if a < 0 { (0 - a) as i128 } else { a });
// std: panics if rhs == 0
pub assume_specification [ <i128>::wrapping_div ] (a: i128, b: i128) -> (r: i128)
    requires b != 0
    ensures r == trunc_div(a as int, b as int);
pub assume_specification [ <i128>::wrapping_rem ] (a: i128, b: i128) -> (r: i128)
    requires b != 0
    ensures r == trunc_rem(a as int, b as int);

pub assume_specification [ <i128>::count_ones ] (a: i128) -> (r: u32)
    ensures r <= 128;

spec fn in_i128(x: int) -> bool { i128::MIN <= x <= i128::MAX }

// IEEE arithmetic itself is not modelled (R7): a real result is the language operator applied to
// the operands in source order
pub uninterp spec fn f64_add_spec(a: f64, b: f64) -> f64;
pub uninterp spec fn f64_sub_spec(a: f64, b: f64) -> f64;
pub uninterp spec fn f64_mul_spec(a: f64, b: f64) -> f64;
pub uninterp spec fn f64_div_spec(a: f64, b: f64) -> f64;
pub uninterp spec fn f64_rem_spec(a: f64, b: f64) -> f64;
pub uninterp spec fn f64_neg_spec(a: f64) -> f64;
pub uninterp spec fn f64_abs_spec(a: f64) -> f64;
pub uninterp spec fn f64_min_spec(a: f64, b: f64) -> f64;
pub uninterp spec fn f64_max_spec(a: f64, b: f64) -> f64;
pub uninterp spec fn f64_round_spec(a: f64) -> f64;
pub uninterp spec fn f64_is_zero_spec(a: f64) -> bool;
pub uninterp spec fn f64_lt_spec(a: f64, b: f64) -> bool;
pub uninterp spec fn i128_to_f64_spec(a: i128) -> f64;
pub uninterp spec fn f64_to_i128_spec(a: f64) -> i128;
#[verifier::external_body] fn f64_add(a: f64, b: f64) -> (c: f64) ensures c == f64_add_spec(a, b) { a + b }
#[verifier::external_body] fn f64_sub(a: f64, b: f64) -> (c: f64) ensures c == f64_sub_spec(a, b) { a - b }
#[verifier::external_body] fn f64_mul(a: f64, b: f64) -> (c: f64) ensures c == f64_mul_spec(a, b) { a * b }
#[verifier::external_body] fn f64_div(a: f64, b: f64) -> (c: f64) ensures c == f64_div_spec(a, b) { a / b }
#[verifier::external_body] fn f64_rem(a: f64, b: f64) -> (c: f64) ensures c == f64_rem_spec(a, b) { a % b }
#[verifier::external_body] fn f64_neg(a: f64) -> (c: f64) ensures c == f64_neg_spec(a) { -a }
#[verifier::external_body] fn f64_abs(a: f64) -> (c: f64) ensures c == f64_abs_spec(a) { a.abs() }
#[verifier::external_body] fn f64_min(a: f64, b: f64) -> (c: f64) ensures c == f64_min_spec(a, b) { a.min(b) }
#[verifier::external_body] fn f64_max(a: f64, b: f64) -> (c: f64) ensures c == f64_max_spec(a, b) { a.max(b) }
#[verifier::external_body] fn f64_round(a: f64) -> (c: f64) ensures c == f64_round_spec(a) { a.round() }
#[verifier::external_body] fn f64_is_zero(a: f64) -> (c: bool) ensures c == f64_is_zero_spec(a) { a == 0.0 }
#[verifier::external_body] fn f64_lt(a: f64, b: f64) -> (c: bool) ensures c == f64_lt_spec(a, b) { a < b }
#[verifier::external_body] fn i128_to_f64(a: i128) -> (c: f64) ensures c == i128_to_f64_spec(a) { a as f64 }
#[verifier::external_body] fn f64_to_i128(a: f64) -> (c: i128) ensures c == f64_to_i128_spec(a) { a as i128 }
