// ================= spec vocabulary for the parsing cursor (C06) =================
// The cursor lives in three heap cells: the current input, the absolute bit offset, the stash.
impl State {
    spec fn in_ref(&self) -> int { self.bitstr_mod.input.0 as int }
    spec fn off_ref(&self) -> int { self.bitstr_mod.offset.0 as int }
    spec fn stash_ref(&self) -> int { self.bitstr_mod.stash.0 as int }

    // the cursor variables exist, are distinct cells and hold an input and an offset inside it
    spec fn cursor_ok(&self) -> bool {
        &&& self.ctx.mode != ContextMode::MetaEval
        &&& self.in_ref() < self.heap@.len() && self.off_ref() < self.heap@.len() && self.stash_ref() < self.heap@.len()
        &&& self.in_ref() != self.off_ref() && self.in_ref() != self.stash_ref() && self.off_ref() != self.stash_ref()
        &&& strip(self.heap@[self.in_ref()]) is Bitstr
        &&& strip(self.heap@[self.off_ref()]) is Int
        &&& self.cur_in().s() <= self.cur_off() <= self.cur_in().e()
        // modest sizes: no input reaches the end of the address range
        &&& self.cur_in().e() < usize::MAX
    }
    spec fn cur_in(&self) -> Bitstr { strip(self.heap@[self.in_ref()])->Bitstr_0 }
    spec fn cur_off(&self) -> int { strip(self.heap@[self.off_ref()])->Int_0 as int }
    // remain: what is left between the offset and the end of the input
    spec fn cur_remain(&self) -> int { self.cur_in().e() - self.cur_off() }
}

// nothing about the cursor changed
spec fn cursor_same(old: &State, new: &State) -> bool {
    &&& new.bitstr_mod == old.bitstr_mod
    &&& new.heap@[new.in_ref()] == old.heap@[old.in_ref()]
    &&& new.heap@[new.off_ref()] == old.heap@[old.off_ref()]
    &&& new.heap@[new.stash_ref()] == old.heap@[old.stash_ref()]
}
