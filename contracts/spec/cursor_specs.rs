// ================= spec vocabulary for the parsing cursor (C06) =================
// The cursor lives in three heap cells: the current input, the absolute bit offset, the stash.
impl State {
    spec fn in_ref(&self) -> int { self.bitstr_mod.input.0 as int }
    spec fn off_ref(&self) -> int { self.bitstr_mod.offset.0 as int }
    spec fn stash_ref(&self) -> int { self.bitstr_mod.stash.0 as int }
    spec fn out_ref(&self) -> int { self.bitstr_mod.output.0 as int }
    spec fn outlen_ref(&self) -> int { self.bitstr_mod.output_len.0 as int }
    spec fn big_ref(&self) -> int { self.bitstr_mod.big_endian.0 as int }
    // the session byte order: the variable `big?` (zero = little endian)
    spec fn cur_bo(&self) -> Byteorder { if strip(self.heap@[self.big_ref()]) == Cell::Int(0) { Byteorder::Little } else { Byteorder::Big } }
    spec fn bo_ok(&self) -> bool { self.ctx.mode != ContextMode::MetaEval && self.big_ref() < self.heap@.len() }

    // the cursor variables exist, are distinct cells and hold an input and an offset inside it
    spec fn cursor_ok(&self) -> bool {
        &&& self.ctx.mode != ContextMode::MetaEval
        &&& self.in_ref() < self.heap@.len() && self.off_ref() < self.heap@.len() && self.stash_ref() < self.heap@.len()
        &&& self.in_ref() != self.off_ref() && self.in_ref() != self.stash_ref() && self.off_ref() != self.stash_ref()
        &&& strip(self.heap@[self.in_ref()]) is Bitstr
        &&& strip(self.heap@[self.off_ref()]) is Int
        &&& self.cur_in().s() <= self.cur_off() <= self.cur_in().e()
        // modest sizes: no input reaches the end of the address range
        &&& self.cur_in().e() < usize::MAX
    }
    spec fn cur_in(&self) -> Bitstr { strip(self.heap@[self.in_ref()])->Bitstr_0 }
    spec fn cur_off(&self) -> int { strip(self.heap@[self.off_ref()])->Int_0 as int }
    // remain: what is left between the offset and the end of the input
    spec fn cur_remain(&self) -> int { self.cur_in().e() - self.cur_off() }
}

// nothing about the cursor changed
spec fn cursor_same(old: &State, new: &State) -> bool {
    &&& new.bitstr_mod == old.bitstr_mod
    &&& new.heap@[new.in_ref()] == old.heap@[old.in_ref()]
    &&& new.heap@[new.off_ref()] == old.heap@[old.off_ref()]
    &&& new.heap@[new.stash_ref()] == old.heap@[old.stash_ref()]
}

// the number a bit sequence denotes (C05: proved by the Kani offset families to depend on the bit
// sequence alone); here only which bits are decoded, and with which byte order, is checked
pub uninterp spec fn uint_of(bits: Seq<bool>, order: Byteorder) -> u128;
pub uninterp spec fn int_of(bits: Seq<bool>, order: Byteorder) -> i128;
pub uninterp spec fn f32_of(bits: Seq<bool>, order: Byteorder) -> f32;
pub uninterp spec fn f64_of(bits: Seq<bool>, order: Byteorder) -> f64;
pub uninterp spec fn f32_to_f64_spec(x: f32) -> f64;
#[verifier::external_body] fn f32_to_f64(x: f32) -> (r: f64) ensures r == f32_to_f64_spec(x) { x as f64 }

impl State {
    // the stash of suspended inputs (close-bitstr pops it, LIFO)
    spec fn stash_ok(&self) -> bool { strip(self.heap@[self.stash_ref()]) is Vector }
    spec fn stash(&self) -> Seq<Cell> { strip(self.heap@[self.stash_ref()])->Vector_0@ }
}

// what a stash entry restores: the input it carries and the offset in its tag
pub uninterp spec fn offset_lit() -> Cell;
spec fn entry_offset(e: Cell) -> Cell {
    match xmap_get(tags_of(e), offset_lit()) { Some(v) => v, None => ZERO }
}

pub uninterp spec fn len_lit() -> Cell;
pub uninterp spec fn big_lit() -> Cell;
// NATIVE is the host byte order (little endian on the verification host; src/bitstr.rs picks it by cfg)
spec fn num_tags(len: int, bo: Byteorder) -> Xmap {
    let m = xmap_insert(xmap_empty(), len_lit(), Cell::Int(len as i128));
    if bo == Byteorder::Big && NATIVE != Byteorder::Big { xmap_insert(m, big_lit(), TRUE) } else { m }
}
