// spec view of Bitstr: the bit sequence and nothing else (shared by units/bitstr.rs and units/cursor.rs)
impl Bitstr {
    spec fn bytes(&self) -> Seq<u8> { self.data@ }
    spec fn s(&self) -> int { self.range.start as int }
    spec fn e(&self) -> int { self.range.end as int }
    #[verifier::type_invariant]
    spec fn wf(&self) -> bool {
        self.range.start <= self.range.end && self.range.end <= 8 * self.data@.len()
    }
    // abstract value: the bit sequence, and nothing else
    spec fn view(&self) -> Seq<bool> {
        bits_of(self.data@, self.range.start as int, self.range.end as int)
    }
}
