// spec view of Bitstr: the bit sequence and nothing else (shared by units/bitstr.rs and units/cursor.rs)
impl Bitstr {
    pub closed spec fn bytes(&self) -> Seq<u8> { self.data@ }
    pub closed spec fn s(&self) -> int { self.range.start as int }
    pub closed spec fn e(&self) -> int { self.range.end as int }
    #[verifier::type_invariant]
    spec fn wf(&self) -> bool {
        self.range.start <= self.range.end && self.range.end <= 8 * self.data@.len()
    }
    // abstract value: the bit sequence, and nothing else
    pub closed spec fn view(&self) -> Seq<bool> {
        bits_of(self.data@, self.range.start as int, self.range.end as int)
    }
}

