// rpds map under the key order of Cell (assumed)
pub uninterp spec fn xmap_get(m: Xmap, k: Cell) -> Option<Cell>;
pub uninterp spec fn xmap_insert(m: Xmap, k: Cell, v: Cell) -> Xmap;
pub uninterp spec fn xmap_remove(m: Xmap, k: Cell) -> Xmap;
pub uninterp spec fn xmap_empty() -> Xmap;
impl Xmap {
    #[verifier::external_body] pub fn new() -> (r: Xmap) ensures r == xmap_empty() { unimplemented!() }
    #[verifier::external_body] pub fn insert(&self, k: Cell, v: Cell) -> (r: Xmap) ensures r == xmap_insert(*self, k, v) { unimplemented!() }
    #[verifier::external_body] pub fn remove(&self, k: &Cell) -> (r: Xmap) ensures r == xmap_remove(*self, *k) { unimplemented!() }
    #[verifier::external_body] pub fn get(&self, k: &Cell) -> (r: Option<&Cell>)
        ensures (r is Some) == (xmap_get(*self, *k) is Some), r is Some ==> *r->0 == xmap_get(*self, *k)->0 { unimplemented!() }
    #[verifier::external_body] pub fn insert_mut(&mut self, k: Cell, v: Cell) ensures *final(self) == xmap_insert(*old(self), k, v) { unimplemented!() }
    #[verifier::external_body] pub fn remove_mut(&mut self, k: &Cell) -> (r: bool) ensures *final(self) == xmap_remove(*old(self), *k) { unimplemented!() }
}

// ASSUMED laws of the rpds map (under a key order that is reflexive): lookup after insert, lookup in the empty map
#[verifier::external_body]
proof fn axiom_xmap_get_insert(m: Xmap, k: Cell, v: Cell)
    ensures xmap_get(xmap_insert(m, k, v), k) == Some(v)
{}
#[verifier::external_body]
proof fn axiom_xmap_get_empty(k: Cell)
    ensures xmap_get(xmap_empty(), k) is None
{}
