// ================= spec vocabulary for equality / order / collections (C12) =================
// equality and order of the opaque leaf types (arcstr, rpds, bit-strings): assumed to be what
// their crates document; only how Cell combines them is verified
pub uninterp spec fn xstr_eq(a: Xstr, b: Xstr) -> bool;
pub uninterp spec fn xstr_cmp(a: Xstr, b: Xstr) -> Option<Ordering>;
pub uninterp spec fn xbitstr_eq(a: Xbitstr, b: Xbitstr) -> bool;
pub uninterp spec fn xvec_eq(a: Xvec, b: Xvec) -> bool;
pub uninterp spec fn xmap_eq(a: Xmap, b: Xmap) -> bool;
pub uninterp spec fn xfn_eq(a: Xfn, b: Xfn) -> bool;
pub uninterp spec fn f64_eq_spec(a: f64, b: f64) -> bool;
pub uninterp spec fn f64_cmp_spec(a: f64, b: f64) -> Option<Ordering>;

impl Xstr {
    #[verifier::external_body] pub fn eq(&self, o: &Xstr) -> (r: bool) ensures r == xstr_eq(*self, *o) { unimplemented!() }
    #[verifier::external_body] pub fn partial_cmp(&self, o: &Xstr) -> (r: Option<Ordering>)
        ensures r == xstr_cmp(*self, *o), r is Some, (r == Some(Ordering::Equal)) == xstr_eq(*self, *o) { unimplemented!() }
    #[verifier::external_body] pub fn len(&self) -> (r: usize) { unimplemented!() }
}
impl Xbitstr {
    #[verifier::external_body] pub fn eq(&self, o: &Xbitstr) -> (r: bool) ensures r == xbitstr_eq(*self, *o) { unimplemented!() }
    #[verifier::external_body] pub fn len(&self) -> (r: usize) { unimplemented!() }
}
impl Xvec {
    #[verifier::external_body] pub fn eq(&self, o: &Xvec) -> (r: bool) ensures r == xvec_eq(*self, *o) { unimplemented!() }
    #[verifier::external_body] pub fn push_back(&self, c: Cell) -> (r: Xvec) ensures r@ == self@.push(c) { unimplemented!() }
}
impl Xmap {
    #[verifier::external_body] pub fn eq(&self, o: &Xmap) -> (r: bool) ensures r == xmap_eq(*self, *o) { unimplemented!() }
}
impl Xfn {
    #[verifier::external_body] pub fn eq(&self, o: &Xfn) -> (r: bool) ensures r == xfn_eq(*self, *o) { unimplemented!() }
}
#[verifier::external_body] fn f64_eq(a: &f64, b: &f64) -> (r: bool) ensures r == f64_eq_spec(*a, *b) { a == b }
#[verifier::external_body] fn f64_partial_cmp(a: &f64, b: &f64) -> (r: Option<Ordering>)
    ensures r == f64_cmp_spec(*a, *b), (r == Some(Ordering::Equal)) ==> f64_eq_spec(*a, *b) { a.partial_cmp(b) }

// the language's equality (equal?): same type and equal payload; tags are ignored
spec fn cell_eq(a: Cell, b: Cell) -> bool {
    match (strip(a), strip(b)) {
        (Cell::Nil, Cell::Nil) => true,
        (Cell::Flag(x), Cell::Flag(y)) => x == y,
        (Cell::Int(x), Cell::Int(y)) => x == y,
        (Cell::Real(x), Cell::Real(y)) => f64_eq_spec(x, y),
        (Cell::Str(x), Cell::Str(y)) => xstr_eq(x, y),
        (Cell::Bitstr(x), Cell::Bitstr(y)) => xbitstr_eq(x, y),
        (Cell::Vector(x), Cell::Vector(y)) => xvec_eq(x, y),
        (Cell::Map(x), Cell::Map(y)) => xmap_eq(x, y),
        (Cell::Fun(x), Cell::Fun(y)) => xfn_eq(x, y),
        _ => false,
    }
}


// the map a literal denotes: n (value, key) pairs of s inserted left to right
pub open spec fn map_of(s: Seq<Cell>, n: int) -> Xmap
    decreases n
{
    if n <= 0 { xmap_empty() } else { xmap_insert(map_of(s, n - 1), s[2 * n - 1], s[2 * n - 2]) }
}

// the n-th innermost loop frame
spec fn loop_n(s: &State, n: int) -> Loop { s.loops@[s.loops@.len() - 1 - n] }

spec fn ds_top(s: &State, k: int) -> Cell { s.data_stack@[s.data_stack@.len() - 1 - k] }
spec fn visible(s: &State, n: int) -> bool { s.data_stack@.len() - s.ctx.ds_len >= n }
// n operands are replaced by one result, nothing below is touched
spec fn replaced(old: &State, new: &State, n: int, v: Cell) -> bool {
    new.data_stack@ == old.data_stack@.take(old.data_stack@.len() - n).push(v)
}

// how slice resolves an index: clamped into [0, len], negative ones count from the end
spec fn slicing_index_spec(idx: int, len: int) -> int {
    if idx >= 0 { if idx < len { idx } else { len } } else { if -idx <= len { len + idx } else { 0 } }
}
