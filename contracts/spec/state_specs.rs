// ================= spec view of State =================
impl State {
    spec fn mach(&self) -> Mach {
        Mach { ip: self.ctx.ip, ds: self.data_stack@, rs: frames_v(self.return_stack@), ls: self.loops@,
               ss: self.special@, hp: self.heap@ }
    }
    spec fn bases(&self) -> Bases {
        Bases { ds: self.ctx.ds_len as int, rs: self.ctx.rs_len as int, ls: self.ctx.ls_len as int, ss: self.ctx.ss_ptr as int }
    }
    spec fn log(&self) -> Seq<ReverseStep> {
        match self.reverse_log { Some(l) => l@, None => Seq::empty() }
    }
    spec fn rec(&self) -> bool { self.reverse_log is Some }

    // the stack bases of the current context lie inside the stacks
    spec fn inv(&self) -> bool {
        &&& self.ctx.ds_len <= self.data_stack@.len()
        &&& self.ctx.rs_len <= self.return_stack@.len()
        &&& self.ctx.ls_len <= self.loops@.len()
        &&& self.ctx.ss_ptr <= self.special@.len()
        &&& self.ctx.fs_len <= self.flow_stack@.len()
    }

    // frame condition: nothing but machine state and the reverse log differs
    spec fn rest_eq(&self, o: &State) -> bool {
        *o == (State {
            heap: o.heap, data_stack: o.data_stack, return_stack: o.return_stack, loops: o.loops, special: o.special,
            ctx: Context { ip: o.ctx.ip, ..self.ctx }, reverse_log: o.reverse_log, ..*self
        })
    }
}

// `new` was reached from `a` by recorded mutations that the last n undo steps take back exactly
// (weak frame: says nothing about fields outside machine state, log and stack bases)
spec fn rev_w(a: &State, new: &State, n: nat) -> bool {
    &&& new.rec() == a.rec()
    &&& new.bases() == a.bases()
    &&& a.rec() ==> undo_n(new.mach(), new.log(), new.bases(), n) == Some((a.mach(), a.log()))
}

// the same with the strong frame of a primitive: nothing but machine state and log differs
spec fn rev(old: &State, new: &State, n: nat) -> bool {
    &&& new.rest_eq(old)
    &&& rev_w(old, new, n)
}

// extension: whatever reached `old` in k undo steps reaches `new` in k + j
spec fn rev_ext(old: &State, new: &State, j: nat) -> bool {
    forall|a: State, k: nat| #[trigger] rev_w(&a, old, k) ==> rev_w(&a, new, k + j)
}

proof fn lemma_rev_trans(a: State, b: State, c: State, n: nat, m: nat)
    requires rev_w(&a, &b, n), rev_w(&b, &c, m)
    ensures rev_w(&a, &c, n + m)
{
    if a.rec() {
        lemma_undo_n_add(c.mach(), c.log(), c.bases(), m, n);
        assert(m + n == n + m);
    }
}

proof fn lemma_rev_ext(old: State, new: State, j: nat)
    requires rev_w(&old, &new, j)
    ensures rev_ext(&old, &new, j)
{
    assert forall|a: State, k: nat| #[trigger] rev_w(&a, &old, k) implies rev_w(&a, &new, k + j) by {
        lemma_rev_trans(a, old, new, k, j);
    }
}

// a primitive that succeeded: invariant kept, frame kept, machine is `m`, and n undo steps go back
spec fn stepped(old: &State, new: &State, m: Mach, n: nat) -> bool {
    &&& new.inv()
    &&& new.mach() == m
    &&& rev(old, new, n)
    &&& rev_ext(old, new, n)
}

// an instruction that completed: the log ends with SetIp(ip before), and below it n undo steps
// lead back to the machine and log `a` had
spec fn insn_rev(a: &State, new: &State, n: nat) -> bool {
    &&& new.rec() == a.rec()
    &&& new.bases() == a.bases()
    &&& a.rec() ==> new.log().len() > 0 && new.log().last() == ReverseStep::SetIp(a.ctx.ip)
            && undo_n(Mach { ip: a.ctx.ip, ..new.mach() }, new.log().drop_last(), new.bases(), n) == Some((a.mach(), a.log()))
}

// set_ip / next_ip: the instruction terminator; undoing the recorded SetIp restores the old ip
spec fn ip_stepped(old: &State, new: &State, new_ip: usize) -> bool {
    &&& new.inv()
    &&& new.rest_eq(old)
    &&& new.rec() == old.rec()
    &&& new.mach() == (Mach { ip: new_ip, ..old.mach() })
    &&& old.rec() ==> new.log() == old.log().push(ReverseStep::SetIp(old.ctx.ip))
    &&& !old.rec() ==> new.log() == old.log()
    &&& undo(new.mach(), new.bases(), ReverseStep::SetIp(old.ctx.ip)) == Some((old.mach(), Seq::<ReverseStep>::empty()))
    &&& forall|a: State, k: nat| #[trigger] rev_w(&a, old, k) ==> insn_rev(&a, new, k)
}

proof fn lemma_ip_ext(old: State, new: State, new_ip: usize)
    requires
        new.rec() == old.rec(), new.bases() == old.bases(),
        new.mach() == (Mach { ip: new_ip, ..old.mach() }),
        old.rec() ==> new.log() == old.log().push(ReverseStep::SetIp(old.ctx.ip)),
    ensures forall|a: State, k: nat| #[trigger] rev_w(&a, &old, k) ==> insn_rev(&a, &new, k)
{
    assert forall|a: State, k: nat| #[trigger] rev_w(&a, &old, k) implies insn_rev(&a, &new, k) by {
        if a.rec() {
            lemma_undo_n_ip(old.mach(), old.log(), old.bases(), k);
            assert(a.ctx.ip == old.ctx.ip);
            assert(new.log().drop_last() =~= old.log());
            assert((Mach { ip: a.ctx.ip, ..new.mach() }) == old.mach());
        }
    }
}

// nothing observable changed (Vec fields are compared by their contents)
spec fn same(old: &State, new: &State) -> bool {
    &&& new.rest_eq(old)
    &&& new.rec() == old.rec()
    &&& new.mach() == old.mach()
    &&& new.log() == old.log()
    &&& new.return_stack@ == old.return_stack@
    &&& rev_ext(old, new, 0)
}

// exactly these entries were appended to the reverse log (nothing when not recording)
spec fn logged(old: &State, new: &State, sfx: Seq<ReverseStep>) -> bool {
    new.log() == (if old.rec() { old.log() + sfx } else { old.log() })
}

spec fn insn_ext(old: &State, new: &State, n: nat) -> bool {
    forall|a: State, k: nat| #[trigger] rev_w(&a, old, k) ==> insn_rev(&a, new, k + n)
}

// ================= per-opcode meaning of the control opcodes (C01 layer 3) =================
spec fn jump_to(rel: RelativeJump, ip: usize) -> usize { ((ip + rel.0) as isize) as usize }

// truth value of a condition cell (Cell::cond_true): nil and false are false
spec fn cond_of(c: Cell) -> Option<bool> {
    match strip(c) { Cell::Nil => Some(false), Cell::Flag(b) => Some(b), _ => None }
}

// What a control instruction that completed did to the machine.  Loads/stores/native calls are
// covered by the contracts of the primitives they consist of; Resolve re-dispatches.
// the value a literal-load instruction pushes
pub open spec fn op_value(op: Opcode) -> Cell {
    match op {
        Opcode::LoadI64(x) => Cell::Int(x as i128),
        Opcode::LoadF64(x) => Cell::Real(x),
        Opcode::LoadStr(x) => Cell::Str(x),
        Opcode::LoadCell(c) => c.cell(),
        _ => Cell::Nil,
    }
}

spec fn exec_ok(old: &State, new: &State) -> bool {
    let ip = old.ctx.ip;
    let m = old.mach();
    let n = new.mach();
    match old.code@[ip as int] {
        Opcode::Nop => n == (Mach { ip: (ip + 1) as usize, ..m }),
        Opcode::Jump(rel) => n == (Mach { ip: jump_to(rel, ip), ..m }),
        Opcode::JumpIf(rel) => m.ds.len() > old.ctx.ds_len && cond_of(m.ds.last()) is Some
            && n == (Mach { ip: if cond_of(m.ds.last())->0 { jump_to(rel, ip) } else { (ip + 1) as usize }, ds: m.ds.drop_last(), ..m }),
        Opcode::JumpIfNot(rel) => m.ds.len() > old.ctx.ds_len && cond_of(m.ds.last()) is Some
            && n == (Mach { ip: if !cond_of(m.ds.last())->0 { jump_to(rel, ip) } else { (ip + 1) as usize }, ds: m.ds.drop_last(), ..m }),
        Opcode::Call(a) => n == (Mach { ip: a, rs: m.rs.push(FrameV { fn_addr: a, return_to: (ip + 1) as usize, locals: Seq::empty() }), ..m }),
        Opcode::Ret => m.rs.len() > old.ctx.rs_len
            && n == (Mach { ip: m.rs.last().return_to, rs: m.rs.drop_last(), ..m }),
        // do ( limit start -- ): an empty range pushes no loop frame and skips the body
        Opcode::Do(rel) => m.ds.len() - old.ctx.ds_len >= 2 && ({
            let start = strip(m.ds[m.ds.len() - 1]);
            let limit = strip(m.ds[m.ds.len() - 2]);
            start is Int && limit is Int && ({
                let s = start->Int_0 as isize;
                let l = limit->Int_0 as isize;
                let ds2 = m.ds.drop_last().drop_last();
                if s < l {
                    n == (Mach { ip: (ip + 1) as usize, ds: ds2, ls: m.ls.push(Loop { items: NIL, range: Range { start: s, end: l } }), ..m })
                } else {
                    n == (Mach { ip: jump_to(rel, ip), ds: ds2, ..m })
                }
            })
        }),
        // loop: advance the index; jump back while the range is not exhausted, otherwise drop the
        // loop frame (a terminated counted loop leaves no index behind) and fall through
        Opcode::Loop(rel) => m.ls.len() > old.ctx.ls_len && ({
            let l = m.ls.last();
            let r2 = range_next(l.range);
            if r2.start < r2.end {
                n == (Mach { ip: jump_to(rel, ip), ls: m.ls.update(m.ls.len() - 1, Loop { items: l.items, range: r2 }), ..m })
            } else {
                n == (Mach { ip: (ip + 1) as usize, ls: m.ls.drop_last(), ..m })
            }
        }),
        // break: leaves the loop, its frame is dropped
        Opcode::Break(rel) => m.ls.len() > old.ctx.ls_len
            && n == (Mach { ip: jump_to(rel, ip), ls: m.ls.drop_last(), ..m }),
        // literals and variables
        Opcode::LoadNil => n == (Mach { ip: (ip + 1) as usize, ds: m.ds.push(Cell::Nil), ..m }),
        Opcode::LoadI64(x) => n == (Mach { ip: (ip + 1) as usize, ds: m.ds.push(Cell::Int(x as i128)), ..m }),
        Opcode::LoadF64(x) => n == (Mach { ip: (ip + 1) as usize, ds: m.ds.push(Cell::Real(x)), ..m }),
        Opcode::LoadStr(x) => n == (Mach { ip: (ip + 1) as usize, ds: m.ds.push(Cell::Str(x)), ..m }),
        Opcode::LoadCell(c) => n == (Mach { ip: (ip + 1) as usize, ds: m.ds.push(c.cell()), ..m }),
        Opcode::Load(cref) => cref.0 < m.hp.len()
            && n == (Mach { ip: (ip + 1) as usize, ds: m.ds.push(m.hp[cref.0 as int]), ..m }),
        Opcode::Store(cref) => m.ds.len() > old.ctx.ds_len && cref.0 < m.hp.len()
            && n == (Mach { ip: (ip + 1) as usize, ds: m.ds.drop_last(), hp: m.hp.update(cref.0 as int, m.ds.last()), ..m }),
        // locals: the first initialisation appends the slot, a later one (a loop body) overwrites it -
        // whether or not the step is being recorded
        Opcode::InitLocal(i) => m.ds.len() > old.ctx.ds_len && m.rs.len() > old.ctx.rs_len && ({
            let f = m.rs.last();
            let l2 = if i < f.locals.len() { f.locals.update(i as int, m.ds.last()) } else { f.locals.push(m.ds.last()) };
            n == (Mach { ip: (ip + 1) as usize, ds: m.ds.drop_last(), rs: m.rs.update(m.rs.len() - 1, FrameV { locals: l2, ..f }), ..m })
        }),
        Opcode::LoadLocal(i) => m.rs.len() > old.ctx.rs_len && i < m.rs.last().locals.len()
            && n == (Mach { ip: (ip + 1) as usize, ds: m.ds.push(m.rs.last().locals[i as int]), ..m }),
        _ => true,
    }
}

// The native-word contract (what `call_native` ASSUMES of a word called through its function
// pointer), stated so that it can be PROVED for the native words that are under contract.
spec fn native_ok(old: &State, new: &State) -> bool {
    &&& new.inv()
    &&& new.ctx.ip == old.ctx.ip
    &&& new.code@.len() == old.code@.len()
    &&& new.insn_meter == old.insn_meter
    // a native word run by the VM does not touch the error bookkeeping, the context marks, the nesting or the pending flow
    &&& new.last_error == old.last_error
    &&& new.ctx == old.ctx && new.nested@ == old.nested@ && new.flow_stack@ == old.flow_stack@
    &&& new.debug_map@.len() == old.debug_map@.len()
    &&& exists|n: nat| #[trigger] rev_w(old, new, n) && rev_ext(old, new, n)
}

// ================= rnext (C02): one backward step =================
// a reverse log whose history consists of completed instructions: empty, or ending in a SetIp
spec fn log_wf(log: Seq<ReverseStep>) -> bool { log.len() == 0 || log.last() is SetIp }

// the state one instruction earlier, if the log ends with a completed instruction that started there
spec fn prev_insn(s: &State) -> (State, nat) {
    choose|p: (State, nat)| insn_rev(&p.0, s, p.1) && log_wf(p.0.log())
}
spec fn has_prev_insn(s: &State) -> bool {
    insn_rev(&prev_insn(s).0, s, prev_insn(s).1) && log_wf(prev_insn(s).0.log())
}

// the state a completed instruction started in is determined by the log (up to machine state and log)
proof fn lemma_prev_unique(a1: State, n1: nat, a2: State, n2: nat, s: State)
    requires s.rec(), insn_rev(&a1, &s, n1), insn_rev(&a2, &s, n2), log_wf(a1.log()), log_wf(a2.log())
    ensures a1.mach() == a2.mach(), a1.log() == a2.log()
{
    let m = Mach { ip: a1.ctx.ip, ..s.mach() };
    assert(a1.ctx.ip == a2.ctx.ip);
    let l = s.log().drop_last();
    let c = s.bases();
    reveal_with_fuel(undo_n, 2);
    if n1 <= n2 {
        lemma_undo_n_add(m, l, c, n1, (n2 - n1) as nat);
        assert(n1 + (n2 - n1) as nat == n2);
        if n2 > n1 { assert(undo_n(a1.mach(), a1.log(), c, (n2 - n1) as nat) is None); }
    } else {
        lemma_undo_n_add(m, l, c, n2, (n1 - n2) as nat);
        assert(n2 + (n1 - n2) as nat == n1);
        assert(undo_n(a2.mach(), a2.log(), c, (n1 - n2) as nat) is None);
    }
}

// ================= driving the machine (C15, C17) =================
pub uninterp spec fn token_location_spec(sources: Seq<(Xstr, Xstr)>, tok: Xsubstr) -> Option<TokenLocation>;
// the location the debug map gives for the current ip
spec fn loc_at_ip(s: &State) -> Option<TokenLocation> {
    if s.ctx.ip < s.debug_map@.len() { token_location_spec(s.sources@, s.debug_map@[s.ctx.ip as int]) } else { None }
}
spec fn err_cleared(s: &State) -> State { State { last_error: None, ..*s } }
// one successful instruction: what fetch_and_run guarantees of it
spec fn step_ok(a: &State, b: &State) -> bool {
    &&& a.ctx.ip < a.code@.len()
    &&& exec_ok(a, b)
    &&& b.insn_meter > a.insn_meter
    &&& exists|n: nat| #[trigger] insn_rev(a, b, n) && insn_ext(a, b, n)
}

spec fn link_ok(ch: Seq<State>, i: int) -> bool { step_ok(&ch[i], &ch[i + 1]) }
// a chain of successful instructions: every state is one `step_ok` after its predecessor
spec fn chain_ok(ch: Seq<State>) -> bool {
    ch.len() > 0 && forall|i: int| 0 <= i < ch.len() - 1 ==> #[trigger] link_ok(ch, i)
}
// b is reached from a by a finite number of successful instructions
spec fn run_steps(a: State, b: State) -> bool {
    exists|ch: Seq<State>| #[trigger] chain_ok(ch) && ch[0] == a && ch.last() == b
}
// the instruction at m fails with e and leaves f: the ip stays on it, only undoable leftovers remain, and the error
// context names the debug-map entry of that ip
spec fn fail_from(m: &State, f: &State, e: Xerr) -> bool {
    &&& m.ctx.ip < m.code@.len() && f.ctx.ip == m.ctx.ip
    &&& f.last_error == Some(ErrorContext { err: e, location: loc_at_ip(f) })
    &&& exists|k: nat| #[trigger] rev_w(m, f, k)
}
proof fn lemma_run_steps_refl(a: State)
    ensures run_steps(a, a)
{
    let ch = seq![a];
    assert(chain_ok(ch) && ch[0] == a && ch.last() == a);
}
proof fn lemma_run_steps_extend(a: State, m: State, b: State)
    requires run_steps(a, m), step_ok(&m, &b)
    ensures run_steps(a, b)
{
    let ch = choose|ch: Seq<State>| chain_ok(ch) && ch[0] == a && ch.last() == m;
    let ch2 = ch.push(b);
    assert forall|i: int| 0 <= i < ch2.len() - 1 implies #[trigger] link_ok(ch2, i) by {
        if i < ch.len() - 1 { assert(link_ok(ch, i)); assert(ch2[i] == ch[i] && ch2[i + 1] == ch[i + 1]); }
        else { assert(ch2[i] == m && ch2[i + 1] == b); }
    }
    assert(chain_ok(ch2) && ch2[0] == a && ch2.last() == b);
}
