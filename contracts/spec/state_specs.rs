// ================= spec view of State =================
impl State {
    spec fn mach(&self) -> Mach {
        Mach { ip: self.ctx.ip, ds: self.data_stack@, rs: frames_v(self.return_stack@), ls: self.loops@,
               ss: self.special@, hp: self.heap@ }
    }
    spec fn bases(&self) -> Bases {
        Bases { ds: self.ctx.ds_len as int, rs: self.ctx.rs_len as int, ls: self.ctx.ls_len as int, ss: self.ctx.ss_ptr as int }
    }
    spec fn log(&self) -> Seq<ReverseStep> {
        match self.reverse_log { Some(l) => l@, None => Seq::empty() }
    }
    spec fn rec(&self) -> bool { self.reverse_log is Some }

    // the stack bases of the current context lie inside the stacks
    spec fn inv(&self) -> bool {
        &&& self.ctx.ds_len <= self.data_stack@.len()
        &&& self.ctx.rs_len <= self.return_stack@.len()
        &&& self.ctx.ls_len <= self.loops@.len()
        &&& self.ctx.ss_ptr <= self.special@.len()
        &&& self.ctx.fs_len <= self.flow_stack@.len()
    }

    // frame condition: nothing but machine state and the reverse log differs
    spec fn rest_eq(&self, o: &State) -> bool {
        *o == (State {
            heap: o.heap, data_stack: o.data_stack, return_stack: o.return_stack, loops: o.loops, special: o.special,
            ctx: Context { ip: o.ctx.ip, ..self.ctx }, reverse_log: o.reverse_log, ..*self
        })
    }
}

// `new` was reached from `a` by recorded mutations that the last n undo steps take back exactly
// (weak frame: says nothing about fields outside machine state, log and stack bases)
spec fn rev_w(a: &State, new: &State, n: nat) -> bool {
    &&& new.rec() == a.rec()
    &&& new.bases() == a.bases()
    &&& a.rec() ==> undo_n(new.mach(), new.log(), new.bases(), n) == Some((a.mach(), a.log()))
}

// the same with the strong frame of a primitive: nothing but machine state and log differs
spec fn rev(old: &State, new: &State, n: nat) -> bool {
    &&& new.rest_eq(old)
    &&& rev_w(old, new, n)
}

// extension: whatever reached `old` in k undo steps reaches `new` in k + j
spec fn rev_ext(old: &State, new: &State, j: nat) -> bool {
    forall|a: State, k: nat| #[trigger] rev_w(&a, old, k) ==> rev_w(&a, new, k + j)
}

proof fn lemma_rev_trans(a: State, b: State, c: State, n: nat, m: nat)
    requires rev_w(&a, &b, n), rev_w(&b, &c, m)
    ensures rev_w(&a, &c, n + m)
{
    if a.rec() {
        lemma_undo_n_add(c.mach(), c.log(), c.bases(), m, n);
        assert(m + n == n + m);
    }
}

proof fn lemma_rev_ext(old: State, new: State, j: nat)
    requires rev_w(&old, &new, j)
    ensures rev_ext(&old, &new, j)
{
    assert forall|a: State, k: nat| #[trigger] rev_w(&a, &old, k) implies rev_w(&a, &new, k + j) by {
        lemma_rev_trans(a, old, new, k, j);
    }
}

// a primitive that succeeded: invariant kept, frame kept, machine is `m`, and n undo steps go back
spec fn stepped(old: &State, new: &State, m: Mach, n: nat) -> bool {
    &&& new.inv()
    &&& new.mach() == m
    &&& rev(old, new, n)
    &&& rev_ext(old, new, n)
}

// an instruction that completed: the log ends with SetIp(ip before), and below it n undo steps
// lead back to the machine and log `a` had
spec fn insn_rev(a: &State, new: &State, n: nat) -> bool {
    &&& new.rec() == a.rec()
    &&& new.bases() == a.bases()
    &&& a.rec() ==> new.log().len() > 0 && new.log().last() == ReverseStep::SetIp(a.ctx.ip)
            && undo_n(Mach { ip: a.ctx.ip, ..new.mach() }, new.log().drop_last(), new.bases(), n) == Some((a.mach(), a.log()))
}

// set_ip / next_ip: the instruction terminator; undoing the recorded SetIp restores the old ip
spec fn ip_stepped(old: &State, new: &State, new_ip: usize) -> bool {
    &&& new.inv()
    &&& new.rest_eq(old)
    &&& new.rec() == old.rec()
    &&& new.mach() == (Mach { ip: new_ip, ..old.mach() })
    &&& old.rec() ==> new.log() == old.log().push(ReverseStep::SetIp(old.ctx.ip))
    &&& !old.rec() ==> new.log() == old.log()
    &&& undo(new.mach(), new.bases(), ReverseStep::SetIp(old.ctx.ip)) == Some((old.mach(), Seq::<ReverseStep>::empty()))
    &&& forall|a: State, k: nat| #[trigger] rev_w(&a, old, k) ==> insn_rev(&a, new, k)
}

proof fn lemma_ip_ext(old: State, new: State, new_ip: usize)
    requires
        new.rec() == old.rec(), new.bases() == old.bases(),
        new.mach() == (Mach { ip: new_ip, ..old.mach() }),
        old.rec() ==> new.log() == old.log().push(ReverseStep::SetIp(old.ctx.ip)),
    ensures forall|a: State, k: nat| #[trigger] rev_w(&a, &old, k) ==> insn_rev(&a, &new, k)
{
    assert forall|a: State, k: nat| #[trigger] rev_w(&a, &old, k) implies insn_rev(&a, &new, k) by {
        if a.rec() {
            lemma_undo_n_ip(old.mach(), old.log(), old.bases(), k);
            assert(a.ctx.ip == old.ctx.ip);
            assert(new.log().drop_last() =~= old.log());
            assert((Mach { ip: a.ctx.ip, ..new.mach() }) == old.mach());
        }
    }
}

// nothing observable changed (Vec fields are compared by their contents)
spec fn same(old: &State, new: &State) -> bool {
    &&& new.rest_eq(old)
    &&& new.rec() == old.rec()
    &&& new.mach() == old.mach()
    &&& new.log() == old.log()
    &&& new.return_stack@ == old.return_stack@
    &&& rev_ext(old, new, 0)
}

// exactly these entries were appended to the reverse log (nothing when not recording)
spec fn logged(old: &State, new: &State, sfx: Seq<ReverseStep>) -> bool {
    new.log() == (if old.rec() { old.log() + sfx } else { old.log() })
}

spec fn insn_ext(old: &State, new: &State, n: nat) -> bool {
    forall|a: State, k: nat| #[trigger] rev_w(&a, old, k) ==> insn_rev(&a, new, k + n)
}
