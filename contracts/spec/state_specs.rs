// ================= spec view of State =================
impl State {
    spec fn mach(&self) -> Mach {
        Mach { ip: self.ctx.ip, ds: self.data_stack@, rs: frames_v(self.return_stack@), ls: self.loops@,
               ss: self.special@, hp: self.heap@ }
    }
    spec fn bases(&self) -> Bases {
        Bases { ds: self.ctx.ds_len as int, rs: self.ctx.rs_len as int, ls: self.ctx.ls_len as int, ss: self.ctx.ss_ptr as int }
    }
    spec fn log(&self) -> Seq<ReverseStep> {
        match self.reverse_log { Some(l) => l@, None => Seq::empty() }
    }
    spec fn rec(&self) -> bool { self.reverse_log is Some }

    // the stack bases of the current context lie inside the stacks
    spec fn inv(&self) -> bool {
        &&& self.ctx.ds_len <= self.data_stack@.len()
        &&& self.ctx.rs_len <= self.return_stack@.len()
        &&& self.ctx.ls_len <= self.loops@.len()
        &&& self.ctx.ss_ptr <= self.special@.len()
        &&& self.ctx.fs_len <= self.flow_stack@.len()
    }

    // frame condition: nothing but machine state and the reverse log differs
    spec fn rest_eq(&self, o: &State) -> bool {
        *o == (State {
            heap: o.heap, data_stack: o.data_stack, return_stack: o.return_stack, loops: o.loops, special: o.special,
            ctx: Context { ip: o.ctx.ip, ..self.ctx }, reverse_log: o.reverse_log, ..*self
        })
    }
}

// `new` was reached from `old` by recorded mutations that the last n undo steps take back exactly
spec fn rev(old: &State, new: &State, n: nat) -> bool {
    &&& new.rest_eq(old)
    &&& new.rec() == old.rec()
    &&& old.rec() ==> undo_n(new.mach(), new.log(), new.bases(), n) == Some((old.mach(), old.log()))
}

// a primitive that succeeded: invariant kept, frame kept, machine is `m`, and n undo steps go back
spec fn stepped(old: &State, new: &State, m: Mach, n: nat) -> bool {
    &&& new.inv()
    &&& new.mach() == m
    &&& rev(old, new, n)
}

// set_ip / next_ip: the instruction terminator; undoing the recorded SetIp restores the old ip
spec fn ip_stepped(old: &State, new: &State, new_ip: usize) -> bool {
    &&& new.inv()
    &&& new.rest_eq(old)
    &&& new.rec() == old.rec()
    &&& new.mach() == (Mach { ip: new_ip, ..old.mach() })
    &&& old.rec() ==> new.log() == old.log().push(ReverseStep::SetIp(old.ctx.ip))
    &&& !old.rec() ==> new.log() == old.log()
    &&& undo(new.mach(), new.bases(), ReverseStep::SetIp(old.ctx.ip)) == Some((old.mach(), Seq::<ReverseStep>::empty()))
}

// nothing observable changed (Vec fields are compared by their contents)
spec fn same(old: &State, new: &State) -> bool {
    &&& new.rest_eq(old)
    &&& new.rec() == old.rec()
    &&& new.mach() == old.mach()
    &&& new.log() == old.log()
    &&& new.return_stack@ == old.return_stack@
}

// exactly these entries were appended to the reverse log (nothing when not recording)
spec fn logged(old: &State, new: &State, sfx: Seq<ReverseStep>) -> bool {
    new.log() == (if old.rec() { old.log() + sfx } else { old.log() })
}
