// ---- what a literal denotes (C16, second half), over the characters [a, b) of the source text
pub open spec fn cu(c: char) -> int { c as u32 as int }
pub open spec fn is_ws(c: char) -> bool { c == ' ' || c == '\t' || c == '\n' || c == '\x0C' || c == '\r' }
pub open spec fn is_dec_digit(c: char) -> bool { 0x30 <= cu(c) <= 0x39 }
pub open spec fn is_sign(c: char) -> bool { c == '-' || c == '+' }
// value of a digit character in bases up to 16
pub open spec fn hexval(c: char) -> Option<u32> {
    if 0x30 <= cu(c) <= 0x39 { Some((cu(c) - 0x30) as u32) }
    else if 0x61 <= cu(c) <= 0x66 { Some((cu(c) - 0x61 + 10) as u32) }
    else if 0x41 <= cu(c) <= 0x46 { Some((cu(c) - 0x41 + 10) as u32) }
    else { None }
}
// bit i of a hex digit
pub open spec fn nib_bit(x: u32, i: u32) -> bool { ((x >> i) as u8) & 1u8 == 1u8 }
// the four bits of a hex digit, most significant first, up to (not including) bit position i
pub open spec fn nib_bits(x: u32, i: int) -> Seq<bool> { Seq::new((4 - i) as nat, |j: int| nib_bit(x, (3 - j) as u32)) }
// the bits one character of a bit-string literal stands for: a hex digit four, `.` a clear bit, `x` a set bit
pub open spec fn char_bits(c: char) -> Seq<bool> {
    if hexval(c) is Some { nib_bits(hexval(c)->0, 0) } else if c == '.' { seq![false] } else if c == 'x' { seq![true] } else { Seq::empty() }
}
pub open spec fn lit_bits(s: Seq<char>, a: int, b: int) -> Seq<bool>
    decreases b - a
{
    if b <= a { Seq::empty() } else { lit_bits(s, a, b - 1) + char_bits(s[b - 1]) }
}
// every character between the bars is a hex digit, white space, `.` or `x`
pub open spec fn bit_body(s: Seq<char>, a: int, b: int) -> bool {
    forall|k: int| a <= k < b ==> hexval(#[trigger] s[k]) is Some || is_ws(s[k]) || s[k] == '.' || s[k] == 'x'
}

// string literals: the documented escapes
pub open spec fn esc_char(c: char) -> Option<char> {
    if c == '\\' { Some('\\') } else if c == '"' { Some('"') } else if c == 'n' { Some('\n') } else if c == 'r' { Some('\r') }
    else if c == 't' { Some('\t') } else { None }
}
pub open spec fn is_close_quote(c: char) -> bool { c == '"' || c == '\u{201d}' }
pub open spec fn is_open_quote(c: char) -> bool { c == '"' || c == '\u{201c}' }
// [a, b) is a well-formed string body: escapes are documented ones, no unescaped closing quote inside
pub open spec fn str_body(s: Seq<char>, a: int, b: int) -> bool
    decreases b - a
{
    if a >= b { a == b }
    else if s[a] == '\\' { a + 2 <= b && esc_char(s[a + 1]) is Some && str_body(s, a + 2, b) }
    else { !is_close_quote(s[a]) && str_body(s, a + 1, b) }
}
// the text a string body denotes
pub open spec fn str_dec(s: Seq<char>, a: int, b: int) -> Seq<char>
    decreases b - a
{
    if a >= b { Seq::empty() }
    else if s[a] == '\\' && a + 2 <= b { seq![esc_char(s[a + 1])->0] + str_dec(s, a + 2, b) }
    else { seq![s[a]] + str_dec(s, a + 1, b) }
}
// one more plain character / one more escape at the end of a well-formed body
pub proof fn lemma_str_step(s: Seq<char>, a: int, b: int)
    requires str_body(s, a, b), 0 <= a <= b
    ensures
        s[b] != '\\' && !is_close_quote(s[b]) ==> str_body(s, a, b + 1) && str_dec(s, a, b + 1) == str_dec(s, a, b).push(s[b]),
        s[b] == '\\' && esc_char(s[b + 1]) is Some ==> str_body(s, a, b + 2) && str_dec(s, a, b + 2) == str_dec(s, a, b).push(esc_char(s[b + 1])->0),
    decreases b - a
{
    if a >= b {
        assert(str_dec(s, a, b) =~= Seq::empty());
        if s[b] != '\\' && !is_close_quote(s[b]) {
            assert(str_body(s, b + 1, b + 1));
            assert(str_dec(s, b + 1, b + 1) =~= Seq::empty());
            assert(str_dec(s, a, b + 1) =~= Seq::<char>::empty().push(s[b]));
        }
        if s[b] == '\\' && esc_char(s[b + 1]) is Some {
            assert(str_body(s, b + 2, b + 2));
            assert(str_dec(s, b + 2, b + 2) =~= Seq::empty());
            assert(str_dec(s, a, b + 2) =~= Seq::<char>::empty().push(esc_char(s[b + 1])->0));
        }
    } else if s[a] == '\\' {
        lemma_str_step(s, a + 2, b);
        if s[b] != '\\' && !is_close_quote(s[b]) {
            assert(str_dec(s, a, b + 1) =~= str_dec(s, a, b).push(s[b]));
        }
        if s[b] == '\\' && esc_char(s[b + 1]) is Some {
            assert(str_dec(s, a, b + 2) =~= str_dec(s, a, b).push(esc_char(s[b + 1])->0));
        }
    } else {
        lemma_str_step(s, a + 1, b);
        if s[b] != '\\' && !is_close_quote(s[b]) {
            assert(str_dec(s, a, b + 1) =~= str_dec(s, a, b).push(s[b]));
        }
        if s[b] == '\\' && esc_char(s[b + 1]) is Some {
            assert(str_dec(s, a, b + 2) =~= str_dec(s, a, b).push(esc_char(s[b + 1])->0));
        }
    }
}

// numbers: the digits handed to the conversion are the characters of [a, b) without the `_` separators
pub open spec fn filt(s: Seq<char>, a: int, b: int) -> Seq<char>
    decreases b - a
{
    if b <= a { Seq::empty() } else if s[b - 1] == '_' { filt(s, a, b - 1) } else { filt(s, a, b - 1).push(s[b - 1]) }
}
pub open spec fn has_dot_in(s: Seq<char>, a: int, b: int) -> bool
    decreases b - a
{
    if b <= a { false } else { has_dot_in(s, a, b - 1) || s[b - 1] == '.' }
}
// a token is a number when it starts with a digit, or with a sign directly followed by a digit (a token runs to the
// next white space, so that digit belongs to it)
pub open spec fn num_start(s: Seq<char>, k0: int) -> bool {
    is_dec_digit(s[k0]) || (is_sign(s[k0]) && k0 + 1 < s.len() && is_dec_digit(s[k0 + 1]))
}
// first digit / explicit radix prefix / where the digits proper start
pub open spec fn num_first(s: Seq<char>, k0: int) -> int { if is_sign(s[k0]) { k0 + 1 } else { k0 } }
pub open spec fn num_has_prefix(s: Seq<char>, k0: int) -> bool {
    let f = num_first(s, k0);
    s[f] == '0' && f + 1 < s.len() && (s[f + 1] == 'x' || s[f + 1] == 'b')
}
pub open spec fn num_body(s: Seq<char>, k0: int) -> int {
    if num_has_prefix(s, k0) { num_first(s, k0) + 2 } else { num_first(s, k0) }
}
// 0x.. is hexadecimal, 0b.. binary, any other number that starts with 0 is hexadecimal, the rest decimal
pub open spec fn num_radix(s: Seq<char>, k0: int) -> u32 {
    let f = num_first(s, k0);
    if num_has_prefix(s, k0) { if s[f + 1] == 'x' { 16u32 } else { 2u32 } } else if s[f] == '0' { 16u32 } else { 10u32 }
}
pub open spec fn sign_seq(s: Seq<char>, k0: int) -> Seq<char> { if is_sign(s[k0]) { seq![s[k0]] } else { Seq::<char>::empty() } }
// sign (if written) followed by the digits without separators
pub open spec fn num_digits(s: Seq<char>, k0: int, k1: int) -> Seq<char> { sign_seq(s, k0) + filt(s, num_body(s, k0), k1) }
pub open spec fn num_is_real(s: Seq<char>, k0: int, k1: int) -> bool { has_dot_in(s, num_body(s, k0), k1) }

// mathematical value of a digit string in a radix (None: empty, a character that is no digit of the radix)
pub open spec fn digits_val(d: Seq<char>, radix: u32) -> Option<int>
    decreases d.len()
{
    if d.len() == 0 { None }
    else if hexval(d.last()) is None || hexval(d.last())->0 >= radix { None }
    else if d.len() == 1 { Some(hexval(d.last())->0 as int) }
    else if digits_val(d.drop_last(), radix) is None { None }
    else { Some(digits_val(d.drop_last(), radix)->0 * radix + hexval(d.last())->0) }
}
// value of [sign] digits, rejected outside the 128-bit range (what from_str_radix computes)
pub open spec fn int_lit_val(d: Seq<char>, radix: u32) -> Option<int> {
    let neg = d.len() > 0 && d[0] == '-';
    let body = if d.len() > 0 && is_sign(d[0]) { d.drop_first() } else { d };
    match digits_val(body, radix) {
        None => None,
        Some(v) => { let w = if neg { -v } else { v }; if i128::MIN <= w <= i128::MAX { Some(w) } else { None } }
    }
}
// standard decimal-to-double conversion (std `str::parse::<f64>`): not interpreted
pub uninterp spec fn real_lit_val(d: Seq<char>) -> Option<f64>;

// ---- printing (C16, last clause): what a printed bit-string reads back as
// `out` is the sink after printing, `before` what it held: the printed text is `|`, then characters that are hex digits,
// blanks, `.` or `x` and denote exactly `bits`, then `|`
pub open spec fn printed_bits(out: Seq<char>, before: Seq<char>, bits: Seq<bool>) -> bool {
    let o = before.len() as int;
    let n = out.len() as int;
    &&& n >= o + 2 && out.subrange(0, o) == before
    &&& out[o] == '|' && out[n - 1] == '|'
    &&& bit_body(out, o + 1, n - 1)
    &&& lit_bits(out, o + 1, n - 1) == bits
}
pub proof fn lemma_lit_bits_ext(s1: Seq<char>, s2: Seq<char>, a: int, b: int)
    requires forall|k: int| a <= k < b ==> s1[k] == s2[k]
    ensures lit_bits(s1, a, b) == lit_bits(s2, a, b)
    decreases b - a
{
    if b > a { lemma_lit_bits_ext(s1, s2, a, b - 1); }
}
// one more character at the end of the sink
pub proof fn lemma_lit_push(s: Seq<char>, a: int, c: char)
    requires 0 <= a <= s.len(), bit_body(s, a, s.len() as int), hexval(c) is Some || is_ws(c) || c == '.' || c == 'x'
    ensures
        lit_bits(s.push(c), a, s.len() as int + 1) == lit_bits(s, a, s.len() as int) + char_bits(c),
        bit_body(s.push(c), a, s.len() as int + 1),
{
    lemma_lit_bits_ext(s, s.push(c), a, s.len() as int);
    assert(s.push(c)[s.len() as int] == c);
    assert forall|k: int| a <= k < s.len() + 1 implies hexval(#[trigger] s.push(c)[k]) is Some || is_ws(s.push(c)[k]) || s.push(c)[k] == '.' || s.push(c)[k] == 'x' by {
        if k < s.len() { assert(s.push(c)[k] == s[k]); }
    }
}

// ---- hex strings (hex>bitstr): the values of the hex digits among the first n characters, white space skipped
pub open spec fn hex_digits(s: Seq<char>, n: int) -> Seq<u32>
    decreases n
{
    if n <= 0 { Seq::empty() } else if is_ws(s[n - 1]) || hexval(s[n - 1]) is None { hex_digits(s, n - 1) } else { hex_digits(s, n - 1).push(hexval(s[n - 1])->0) }
}
pub open spec fn hex_ok(s: Seq<char>, n: int) -> bool { forall|k: int| 0 <= k < n ==> is_ws(#[trigger] s[k]) || hexval(s[k]) is Some }
// four bits per digit, most significant first
pub open spec fn nibs_bits(d: Seq<u32>) -> Seq<bool> { Seq::new(4 * d.len(), |p: int| nib_bit(d[p / 4], (3 - p % 4) as u32)) }
