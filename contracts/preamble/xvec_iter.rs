// rpds Vector::iter (ASSUMED): yields the elements in order
#[verifier::external_body] pub struct XvecIter<'a> { _p: &'a u8 }
impl<'a> XvecIter<'a> { pub uninterp spec fn rem(&self) -> Seq<&'a Cell>; }
impl<'a> vstd::std_specs::iter::IteratorSpecImpl for XvecIter<'a> {
    open spec fn obeys_prophetic_iter_laws(&self) -> bool { true }
    open spec fn remaining(&self) -> Seq<&'a Cell> { self.rem() }
    open spec fn will_return_none(&self) -> bool { true }
    open spec fn decrease(&self) -> Option<nat> { Some(self.rem().len()) }
    open spec fn peek(&self, index: int) -> Option<&'a Cell> {
        if 0 <= index < self.rem().len() { Some(self.rem()[index]) } else { None }
    }
}
impl<'a> Iterator for XvecIter<'a> {
    type Item = &'a Cell;
    #[verifier::external_body] fn next(&mut self) -> Option<&'a Cell> { unimplemented!() }
}
impl Xvec {
    #[verifier::external_body] pub fn iter(&self) -> (r: XvecIter<'_>)
        ensures self@.len() <= usize::MAX, r.rem().len() == self@.len(), forall|i: int| 0 <= i < self@.len() ==> *(#[trigger] r.rem()[i]) == self@[i] { unimplemented!() }
}
