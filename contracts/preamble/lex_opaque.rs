// the lexer state is an opaque leaf type everywhere but in unit lexer
#[verifier::external_body] pub struct Lex { _p: u8 }
