// stand-in for core::fmt::Formatter: a character sink.  ASSUMED: write_str / write_char append exactly their argument and
// may fail; `write!(f, ..)` (rule Rwrite: `verif_write`) writes something and may fail; a WIDTH argument of a format
// string must not exceed u16::MAX (std panics with "Formatting argument out of range" since Rust 1.87)
#[verifier::external_body] pub struct Formatter { _p: u8 }
pub struct FmtError {}
pub type FmtResult = Result<(), FmtError>;
impl Formatter {
    pub uninterp spec fn out(&self) -> Seq<char>;
    // the width the caller asked for: xeh passes its formatting flags there; writing does not change it
    pub uninterp spec fn wd(&self) -> Option<usize>;
    #[verifier::external_body] pub fn write_str(&mut self, s: &str) -> (r: FmtResult)
        ensures r is Ok ==> final(self).out() == old(self).out() + s@, final(self).wd() == old(self).wd()
    { unimplemented!() }
    #[verifier::external_body] pub fn write_char(&mut self, c: char) -> (r: FmtResult)
        ensures r is Ok ==> final(self).out() == old(self).out().push(c), final(self).wd() == old(self).wd()
    { unimplemented!() }
}
#[verifier::external_body] pub fn verif_write(f: &mut Formatter) -> (r: FmtResult) ensures final(f).wd() == old(f).wd() { unimplemented!() }
#[verifier::external_body] pub fn verif_fmt_width(w: usize) requires w <= u16::MAX { unimplemented!() }
