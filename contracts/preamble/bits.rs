// ================= preamble: bit-level spec vocabulary (ghost only) =================
// bit `i` (0 = most significant) of byte x
pub open spec fn byte_bit(x: u8, i: int) -> bool {
    0 <= i < 8 && ((x >> ((7 - i) as u8)) & 1u8) == 1u8
}

// bit `j` (0 = most significant) of the low `w` bits of v
pub open spec fn field_bit(v: u8, w: int, j: int) -> bool {
    0 <= j < w <= 8 && ((v >> ((w - 1 - j) as u8)) & 1u8) == 1u8
}

// bit at absolute bit position `pos` of a byte buffer
pub open spec fn bit_at(s: Seq<u8>, pos: int) -> bool {
    byte_bit(s[pos / 8], pos % 8)
}

pub open spec fn ubi(n: int) -> int { (n + 7) / 8 }

pub open spec fn bits01(v: Seq<bool>) -> Seq<u8> { v.map_values(|b: bool| if b { 1u8 } else { 0u8 }) }

pub open spec fn bit_mask_spec(l: u32) -> u32 { !(0xffu32 << l) & 0xffu32 }

// the bits [lo, hi) of a buffer as a sequence
pub open spec fn bits_of(s: Seq<u8>, lo: int, hi: int) -> Seq<bool> {
    Seq::new((hi - lo) as nat, |i: int| bit_at(s, lo + i))
}

// g packs bits [pos, pos+len) of s, right aligned, high bits zero
pub open spec fn is_group(s: Seq<u8>, pos: int, len: int, g: (u8, u32)) -> bool {
    &&& g.1 == len
    &&& 1 <= len <= 8
    &&& forall|j: int| 0 <= j < len ==> field_bit(g.0, len, j) == bit_at(s, pos + j)
    &&& (len < 8 ==> (g.0 >> (len as u8)) == 0u8)
}

pub proof fn lemma_zero_byte(i: int)
    ensures !byte_bit(0u8, i)
{
    if 0 <= i < 8 {
        let k = (7 - i) as u8;
        assert(k < 8 ==> (0u8 >> k) & 1u8 == 0u8) by (bit_vector);
    }
}

pub proof fn lemma_mask_keep(b: u8, k: u8, i: u8)
    requires 0 < k < 8, i < 8
    ensures byte_bit(b & (0xffu8 << ((8 - k) as u8)), i as int) == (i < k && byte_bit(b, i as int))
{
    assert(0 < k < 8 && i < 8 ==>
        ((((b & (0xffu8 << ((8 - k) as u8))) >> ((7 - i) as u8)) & 1u8) == 1u8) == (i < k && (((b >> ((7 - i) as u8)) & 1u8) == 1u8))) by (bit_vector);
}

pub proof fn lemma_or_bit(b: u8, x: u8, k: u8, j: u8)
    requires k < 8, j < 8, x <= 1, ((b >> ((7 - k) as u8)) & 1u8) != 1u8
    ensures byte_bit(b | (x << ((7 - k) as u8)), j as int) == (if j == k { x == 1 } else { byte_bit(b, j as int) })
{
    assert(k < 8 && j < 8 && x <= 1 && ((b >> ((7 - k) as u8)) & 1u8) != 1u8 ==>
        (((((b | (x << ((7 - k) as u8))) >> ((7 - j) as u8)) & 1u8) == 1u8)
            == (if j == k { x == 1 } else { ((b >> ((7 - j) as u8)) & 1u8) == 1u8 }))) by (bit_vector);
}

pub proof fn lemma_xor_bit(b: u8, k: u8, j: u8)
    requires k < 8, j < 8
    ensures byte_bit(b ^ (1u8 << ((7 - k) as u8)), j as int) == (if j == k { !byte_bit(b, j as int) } else { byte_bit(b, j as int) })
{
    assert(k < 8 && j < 8 ==>
        (((((b ^ (1u8 << ((7 - k) as u8))) >> ((7 - j) as u8)) & 1u8) == 1u8)
            == (if j == k { !(((b >> ((7 - j) as u8)) & 1u8) == 1u8) } else { ((b >> ((7 - j) as u8)) & 1u8) == 1u8 }))) by (bit_vector);
}

pub proof fn lemma_cut(x: u8, sb: u32, l: u32, j: u32)
    requires sb < 8, 1 <= l, sb + l <= 8, j < l
    ensures
        ((((x >> ((8 - (sb + l)) as u32)) & (bit_mask_spec(l) as u8)) >> ((l - 1 - j) as u8)) & 1u8)
            == ((x >> ((7 - (sb + j)) as u8)) & 1u8)
{
    assert(sb < 8 && 1 <= l && sb + l <= 8 && j < l ==>
        ((((x >> ((8 - (sb + l)) as u32)) & ((!(0xffu32 << l) & 0xffu32) as u8)) >> ((l - 1 - j) as u8)) & 1u8)
            == ((x >> ((7 - (sb + j)) as u8)) & 1u8)) by (bit_vector);
}

pub proof fn lemma_cut_hi(x: u8, sb: u32, l: u32)
    requires sb < 8, 1 <= l, sb + l <= 8
    ensures l < 8 ==> (((x >> ((8 - (sb + l)) as u32)) & (bit_mask_spec(l) as u8)) >> (l as u8)) == 0u8
{
    assert(sb < 8 && 1 <= l && sb + l <= 8 && l < 8 ==>
        (((x >> ((8 - (sb + l)) as u32)) & ((!(0xffu32 << l) & 0xffu32) as u8)) >> (l as u8)) == 0u8) by (bit_vector);
}

pub proof fn lemma_join(v1: u8, v2: u8, n: u32, n2: u32, j: u32)
    requires 1 <= n, 1 <= n2, n + n2 <= 8, j < n + n2, (n < 8 ==> (v1 >> (n as u8)) == 0u8), (n2 < 8 ==> (v2 >> (n2 as u8)) == 0u8)
    ensures
        field_bit((v1 << (n2 as u8)) | v2, (n + n2) as int, j as int)
            == (if j < n { field_bit(v1, n as int, j as int) } else { field_bit(v2, n2 as int, (j - n) as int) })
{
    assert(1 <= n && 1 <= n2 && n + n2 <= 8 && j < n + n2 && (n < 8 ==> (v1 >> (n as u8)) == 0u8) && (n2 < 8 ==> (v2 >> (n2 as u8)) == 0u8) ==>
        ((((((v1 << (n2 as u8)) | v2) >> ((n + n2 - 1 - j) as u8)) & 1u8) == 1u8)
            == (if j < n { ((v1 >> ((n - 1 - j) as u8)) & 1u8) == 1u8 } else { ((v2 >> ((n2 - 1 - (j - n)) as u8)) & 1u8) == 1u8 }))) by (bit_vector);
}

pub proof fn lemma_join_hi(v1: u8, v2: u8, n: u32, n2: u32)
    requires 1 <= n, 1 <= n2, n + n2 <= 8, (n < 8 ==> (v1 >> (n as u8)) == 0u8), (n2 < 8 ==> (v2 >> (n2 as u8)) == 0u8)
    ensures n + n2 < 8 ==> (((v1 << (n2 as u8)) | v2) >> ((n + n2) as u8)) == 0u8
{
    assert(1 <= n && 1 <= n2 && n + n2 < 8 && (v1 >> (n as u8)) == 0u8 && (v2 >> (n2 as u8)) == 0u8 ==>
        (((v1 << (n2 as u8)) | v2) >> ((n + n2) as u8)) == 0u8) by (bit_vector);
}
