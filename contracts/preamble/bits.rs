// ================= preamble: bit-level spec vocabulary (ghost only) =================
// bit `i` (0 = most significant) of byte x
pub open spec fn byte_bit(x: u8, i: int) -> bool {
    0 <= i < 8 && ((x >> ((7 - i) as u8)) & 1u8) == 1u8
}

// bit `j` (0 = most significant) of the low `w` bits of v
pub open spec fn field_bit(v: u8, w: int, j: int) -> bool {
    0 <= j < w <= 8 && ((v >> ((w - 1 - j) as u8)) & 1u8) == 1u8
}

// bit at absolute bit position `pos` of a byte buffer
pub open spec fn bit_at(s: Seq<u8>, pos: int) -> bool {
    byte_bit(s[pos / 8], pos % 8)
}

pub open spec fn ubi(n: int) -> int { (n + 7) / 8 }

pub open spec fn bits01(v: Seq<bool>) -> Seq<u8> { v.map_values(|b: bool| if b { 1u8 } else { 0u8 }) }

pub open spec fn bit_mask_spec(l: u32) -> u32 { !(0xffu32 << l) & 0xffu32 }

// the bits [lo, hi) of a buffer as a sequence
pub open spec fn bits_of(s: Seq<u8>, lo: int, hi: int) -> Seq<bool> {
    Seq::new((hi - lo) as nat, |i: int| bit_at(s, lo + i))
}

// g packs bits [pos, pos+len) of s, right aligned, high bits zero
pub open spec fn is_group(s: Seq<u8>, pos: int, len: int, g: (u8, u32)) -> bool {
    &&& g.1 == len
    &&& 1 <= len <= 8
    &&& forall|j: int| 0 <= j < len ==> field_bit(g.0, len, j) == bit_at(s, pos + j)
    &&& (len < 8 ==> (g.0 >> (len as u8)) == 0u8)
}

pub proof fn lemma_zero_byte(i: int)
    ensures !byte_bit(0u8, i)
{
    if 0 <= i < 8 {
        let k = (7 - i) as u8;
        assert(k < 8 ==> (0u8 >> k) & 1u8 == 0u8) by (bit_vector);
    }
}

pub proof fn lemma_mask_keep(b: u8, k: u8, i: u8)
    requires 0 < k < 8, i < 8
    ensures byte_bit(b & (0xffu8 << ((8 - k) as u8)), i as int) == (i < k && byte_bit(b, i as int))
{
    assert(0 < k < 8 && i < 8 ==>
        ((((b & (0xffu8 << ((8 - k) as u8))) >> ((7 - i) as u8)) & 1u8) == 1u8) == (i < k && (((b >> ((7 - i) as u8)) & 1u8) == 1u8))) by (bit_vector);
}

pub proof fn lemma_or_bit(b: u8, x: u8, k: u8, j: u8)
    requires k < 8, j < 8, x <= 1, ((b >> ((7 - k) as u8)) & 1u8) != 1u8
    ensures byte_bit(b | (x << ((7 - k) as u8)), j as int) == (if j == k { x == 1 } else { byte_bit(b, j as int) })
{
    assert(k < 8 && j < 8 && x <= 1 && ((b >> ((7 - k) as u8)) & 1u8) != 1u8 ==>
        (((((b | (x << ((7 - k) as u8))) >> ((7 - j) as u8)) & 1u8) == 1u8)
            == (if j == k { x == 1 } else { ((b >> ((7 - j) as u8)) & 1u8) == 1u8 }))) by (bit_vector);
}

pub proof fn lemma_xor_bit(b: u8, k: u8, j: u8)
    requires k < 8, j < 8
    ensures byte_bit(b ^ (1u8 << ((7 - k) as u8)), j as int) == (if j == k { !byte_bit(b, j as int) } else { byte_bit(b, j as int) })
{
    assert(k < 8 && j < 8 ==>
        (((((b ^ (1u8 << ((7 - k) as u8))) >> ((7 - j) as u8)) & 1u8) == 1u8)
            == (if j == k { !(((b >> ((7 - j) as u8)) & 1u8) == 1u8) } else { ((b >> ((7 - j) as u8)) & 1u8) == 1u8 }))) by (bit_vector);
}

pub proof fn lemma_cut(x: u8, sb: u32, l: u32, j: u32)
    requires sb < 8, 1 <= l, sb + l <= 8, j < l
    ensures
        ((((x >> ((8 - (sb + l)) as u32)) & (bit_mask_spec(l) as u8)) >> ((l - 1 - j) as u8)) & 1u8)
            == ((x >> ((7 - (sb + j)) as u8)) & 1u8)
{
    assert(sb < 8 && 1 <= l && sb + l <= 8 && j < l ==>
        ((((x >> ((8 - (sb + l)) as u32)) & ((!(0xffu32 << l) & 0xffu32) as u8)) >> ((l - 1 - j) as u8)) & 1u8)
            == ((x >> ((7 - (sb + j)) as u8)) & 1u8)) by (bit_vector);
}

pub proof fn lemma_cut_hi(x: u8, sb: u32, l: u32)
    requires sb < 8, 1 <= l, sb + l <= 8
    ensures l < 8 ==> (((x >> ((8 - (sb + l)) as u32)) & (bit_mask_spec(l) as u8)) >> (l as u8)) == 0u8
{
    assert(sb < 8 && 1 <= l && sb + l <= 8 && l < 8 ==>
        (((x >> ((8 - (sb + l)) as u32)) & ((!(0xffu32 << l) & 0xffu32) as u8)) >> (l as u8)) == 0u8) by (bit_vector);
}

pub proof fn lemma_join(v1: u8, v2: u8, n: u32, n2: u32, j: u32)
    requires 1 <= n, 1 <= n2, n + n2 <= 8, j < n + n2, (n < 8 ==> (v1 >> (n as u8)) == 0u8), (n2 < 8 ==> (v2 >> (n2 as u8)) == 0u8)
    ensures
        field_bit((v1 << (n2 as u8)) | v2, (n + n2) as int, j as int)
            == (if j < n { field_bit(v1, n as int, j as int) } else { field_bit(v2, n2 as int, (j - n) as int) })
{
    assert(1 <= n && 1 <= n2 && n + n2 <= 8 && j < n + n2 && (n < 8 ==> (v1 >> (n as u8)) == 0u8) && (n2 < 8 ==> (v2 >> (n2 as u8)) == 0u8) ==>
        ((((((v1 << (n2 as u8)) | v2) >> ((n + n2 - 1 - j) as u8)) & 1u8) == 1u8)
            == (if j < n { ((v1 >> ((n - 1 - j) as u8)) & 1u8) == 1u8 } else { ((v2 >> ((n2 - 1 - (j - n)) as u8)) & 1u8) == 1u8 }))) by (bit_vector);
}

pub proof fn lemma_join_hi(v1: u8, v2: u8, n: u32, n2: u32)
    requires 1 <= n, 1 <= n2, n + n2 <= 8, (n < 8 ==> (v1 >> (n as u8)) == 0u8), (n2 < 8 ==> (v2 >> (n2 as u8)) == 0u8)
    ensures n + n2 < 8 ==> (((v1 << (n2 as u8)) | v2) >> ((n + n2) as u8)) == 0u8
{
    assert(1 <= n && 1 <= n2 && n + n2 < 8 && (v1 >> (n as u8)) == 0u8 && (v2 >> (n2 as u8)) == 0u8 ==>
        (((v1 << (n2 as u8)) | v2) >> ((n + n2) as u8)) == 0u8) by (bit_vector);
}

// byte-aligned append: the buffer after `extend_from_slice` holds both bit sequences back to back
pub proof fn lemma_append_aligned(c: Seq<u8>, tb: Seq<u8>, ts: int, te: int, s: int, e: int, nb: Seq<u8>)
    requires
        0 <= s <= e, e % 8 == 0, c.len() == e / 8,
        0 <= ts <= te <= 8 * tb.len(), ts % 8 == 0, te % 8 == 0,
        nb == c + tb.subrange(ts / 8, te / 8),
    ensures
        bits_of(nb, s, e + (te - ts)) == bits_of(c, s, e) + bits_of(tb, ts, te)
{
    let l = bits_of(nb, s, e + (te - ts));
    let r = bits_of(c, s, e) + bits_of(tb, ts, te);
    assert(l.len() == r.len());
    assert forall|k: int| 0 <= k < l.len() implies l[k] == r[k] by {
        if k < e - s {
            assert(nb[(s + k) / 8] == c[(s + k) / 8]);
        } else {
            let q = k - (e - s);
            assert((e + q) / 8 == e / 8 + q / 8 && (e + q) % 8 == q % 8);
            assert((ts + q) / 8 == ts / 8 + q / 8 && (ts + q) % 8 == q % 8);
            assert(nb[(e + q) / 8] == tb[(ts + q) / 8]);
        }
    }
    assert(l =~= r);
}

// what `truncate(ubi(e))` followed by masking the last partial byte leaves behind
pub open spec fn cleared(old_bytes: Seq<u8>, c: Seq<u8>, s: int, e: int) -> bool {
    &&& c.len() == ubi(e)
    &&& forall|p: int| s <= p < e ==> bit_at(c, p) == bit_at(old_bytes, p)
    &&& forall|p: int| e <= p < 8 * c.len() ==> !bit_at(c, p)
}

pub proof fn lemma_cleared(old_bytes: Seq<u8>, t: Seq<u8>, c: Seq<u8>, s: int, e: int)
    requires
        0 <= s <= e <= 8 * old_bytes.len(),
        t == old_bytes.take(ubi(e)),
        e % 8 == 0 ==> c == t,
        e % 8 > 0 ==> c.len() == t.len() && (forall|i: int| 0 <= i < t.len() && i != e / 8 ==> c[i] == t[i])
            && (forall|i: int| 0 <= i < 8 ==> #[trigger] byte_bit(c[e / 8], i) == (i < e % 8 && byte_bit(t[e / 8], i))),
    ensures cleared(old_bytes, c, s, e)
{
    assert forall|p: int| s <= p < e implies bit_at(c, p) == bit_at(old_bytes, p) by {
        assert(t[p / 8] == old_bytes[p / 8]);
        if e % 8 > 0 && p / 8 == e / 8 { } else { assert(c[p / 8] == t[p / 8]); }
    }
    assert forall|p: int| e <= p < 8 * c.len() implies !bit_at(c, p) by {
        assert(p / 8 == e / 8);
        assert(e % 8 > 0);
    }
}

// ---- the sequence of 8-bit groups of bits [pos, end): what Iter8 yields ----
pub open spec fn glen(pos: int, end: int) -> int { if end - pos < 8 { end - pos } else { 8 } }

pub open spec fn group_of(s: Seq<u8>, pos: int, len: int) -> (u8, u32) {
    choose|g: (u8, u32)| is_group(s, pos, len, g)
}

pub open spec fn groups(s: Seq<u8>, pos: int, end: int) -> Seq<(u8, u32)>
    decreases end - pos
{
    if pos >= end { Seq::empty() } else { seq![group_of(s, pos, glen(pos, end))] + groups(s, pos + glen(pos, end), end) }
}

pub proof fn lemma_low_bits_determine(v1: u8, v2: u8)
    requires
        (v1 >> 0u8) & 1u8 == (v2 >> 0u8) & 1u8, (v1 >> 1u8) & 1u8 == (v2 >> 1u8) & 1u8,
        (v1 >> 2u8) & 1u8 == (v2 >> 2u8) & 1u8, (v1 >> 3u8) & 1u8 == (v2 >> 3u8) & 1u8,
        (v1 >> 4u8) & 1u8 == (v2 >> 4u8) & 1u8, (v1 >> 5u8) & 1u8 == (v2 >> 5u8) & 1u8,
        (v1 >> 6u8) & 1u8 == (v2 >> 6u8) & 1u8, (v1 >> 7u8) & 1u8 == (v2 >> 7u8) & 1u8,
    ensures v1 == v2
{
    assert(((v1 >> 0u8) & 1u8 == (v2 >> 0u8) & 1u8) && ((v1 >> 1u8) & 1u8 == (v2 >> 1u8) & 1u8)
        && ((v1 >> 2u8) & 1u8 == (v2 >> 2u8) & 1u8) && ((v1 >> 3u8) & 1u8 == (v2 >> 3u8) & 1u8)
        && ((v1 >> 4u8) & 1u8 == (v2 >> 4u8) & 1u8) && ((v1 >> 5u8) & 1u8 == (v2 >> 5u8) & 1u8)
        && ((v1 >> 6u8) & 1u8 == (v2 >> 6u8) & 1u8) && ((v1 >> 7u8) & 1u8 == (v2 >> 7u8) & 1u8) ==> v1 == v2) by (bit_vector);
}

// bit k (0 = least significant) of a value whose bits above `len` are zero
pub proof fn lemma_high_zero(v: u8, len: u8, k: u8)
    requires len < 8, (v >> len) == 0u8, len <= k < 8
    ensures (v >> k) & 1u8 == 0u8
{
    assert(len < 8 && (v >> len) == 0u8 && len <= k && k < 8 ==> (v >> k) & 1u8 == 0u8) by (bit_vector);
}

pub open spec fn lowbit(v: u8, k: int) -> u8 { (v >> (k as u8)) & 1u8 }

pub proof fn lemma_group_unique(s: Seq<u8>, pos: int, len: int, g1: (u8, u32), g2: (u8, u32))
    requires is_group(s, pos, len, g1), is_group(s, pos, len, g2)
    ensures g1 == g2
{
    let v1 = g1.0; let v2 = g2.0;
    assert forall|k: int| 0 <= k < 8 implies #[trigger] lowbit(v1, k) == lowbit(v2, k) by {
        if k < len {
            let j = len - 1 - k;
            assert(field_bit(v1, len, j) == bit_at(s, pos + j));
            assert(field_bit(v2, len, j) == bit_at(s, pos + j));
            let a = (v1 >> (k as u8)) & 1u8; let b = (v2 >> (k as u8)) & 1u8;
            assert((len - 1 - j) as u8 == k as u8);
            assert(a == 0u8 || a == 1u8) by { let kk = k as u8; assert(((v1 >> kk) & 1u8) == 0u8 || ((v1 >> kk) & 1u8) == 1u8) by (bit_vector); }
            assert(b == 0u8 || b == 1u8) by { let kk = k as u8; assert(((v2 >> kk) & 1u8) == 0u8 || ((v2 >> kk) & 1u8) == 1u8) by (bit_vector); }
        } else {
            lemma_high_zero(v1, len as u8, k as u8);
            lemma_high_zero(v2, len as u8, k as u8);
        }
    }
    assert(lowbit(v1, 0) == lowbit(v2, 0));
    assert(lowbit(v1, 1) == lowbit(v2, 1));
    assert(lowbit(v1, 2) == lowbit(v2, 2));
    assert(lowbit(v1, 3) == lowbit(v2, 3));
    assert(lowbit(v1, 4) == lowbit(v2, 4));
    assert(lowbit(v1, 5) == lowbit(v2, 5));
    assert(lowbit(v1, 6) == lowbit(v2, 6));
    assert(lowbit(v1, 7) == lowbit(v2, 7));
    lemma_low_bits_determine(v1, v2);
}

// ---- every position has a group (so `group_of` is a real choice), and what the groups of a range are
pub open spec fn pack8(b0: bool, b1: bool, b2: bool, b3: bool, b4: bool, b5: bool, b6: bool, b7: bool) -> u8 {
    (if b0 { 0x80u8 } else { 0u8 }) | (if b1 { 0x40u8 } else { 0u8 }) | (if b2 { 0x20u8 } else { 0u8 }) | (if b3 { 0x10u8 } else { 0u8 })
    | (if b4 { 0x08u8 } else { 0u8 }) | (if b5 { 0x04u8 } else { 0u8 }) | (if b6 { 0x02u8 } else { 0u8 }) | (if b7 { 0x01u8 } else { 0u8 })
}

pub proof fn lemma_pack8(b0: bool, b1: bool, b2: bool, b3: bool, b4: bool, b5: bool, b6: bool, b7: bool)
    ensures ({ let w = pack8(b0, b1, b2, b3, b4, b5, b6, b7);
        &&& (((w >> 7u8) & 1u8) == 1u8) == b0 &&& (((w >> 6u8) & 1u8) == 1u8) == b1
        &&& (((w >> 5u8) & 1u8) == 1u8) == b2 &&& (((w >> 4u8) & 1u8) == 1u8) == b3
        &&& (((w >> 3u8) & 1u8) == 1u8) == b4 &&& (((w >> 2u8) & 1u8) == 1u8) == b5
        &&& (((w >> 1u8) & 1u8) == 1u8) == b6 &&& (((w >> 0u8) & 1u8) == 1u8) == b7 })
{
    let x0 = if b0 { 0x80u8 } else { 0u8 }; let x1 = if b1 { 0x40u8 } else { 0u8 };
    let x2 = if b2 { 0x20u8 } else { 0u8 }; let x3 = if b3 { 0x10u8 } else { 0u8 };
    let x4 = if b4 { 0x08u8 } else { 0u8 }; let x5 = if b5 { 0x04u8 } else { 0u8 };
    let x6 = if b6 { 0x02u8 } else { 0u8 }; let x7 = if b7 { 0x01u8 } else { 0u8 };
    let w = x0 | x1 | x2 | x3 | x4 | x5 | x6 | x7;
    assert((x0 == 0x80u8 || x0 == 0u8) && (x1 == 0x40u8 || x1 == 0u8) && (x2 == 0x20u8 || x2 == 0u8) && (x3 == 0x10u8 || x3 == 0u8)
        && (x4 == 0x08u8 || x4 == 0u8) && (x5 == 0x04u8 || x5 == 0u8) && (x6 == 0x02u8 || x6 == 0u8) && (x7 == 0x01u8 || x7 == 0u8)
        && w == x0 | x1 | x2 | x3 | x4 | x5 | x6 | x7 ==>
           ((((w >> 7u8) & 1u8) == 1u8) == (x0 == 0x80u8)) && ((((w >> 6u8) & 1u8) == 1u8) == (x1 == 0x40u8))
        && ((((w >> 5u8) & 1u8) == 1u8) == (x2 == 0x20u8)) && ((((w >> 4u8) & 1u8) == 1u8) == (x3 == 0x10u8))
        && ((((w >> 3u8) & 1u8) == 1u8) == (x4 == 0x08u8)) && ((((w >> 2u8) & 1u8) == 1u8) == (x5 == 0x04u8))
        && ((((w >> 1u8) & 1u8) == 1u8) == (x6 == 0x02u8)) && ((((w >> 0u8) & 1u8) == 1u8) == (x7 == 0x01u8))) by (bit_vector);
}

pub proof fn lemma_group_exists(s: Seq<u8>, pos: int, len: int)
    requires 1 <= len <= 8
    ensures is_group(s, pos, len, group_of(s, pos, len))
{
    let b = |j: int| j < len && bit_at(s, pos + j);
    let w = pack8(b(0), b(1), b(2), b(3), b(4), b(5), b(6), b(7));
    lemma_pack8(b(0), b(1), b(2), b(3), b(4), b(5), b(6), b(7));
    let sh = (8 - len) as u8;
    let l8 = len as u8;
    let v = w >> sh;
    assert forall|j: int| 0 <= j < len implies field_bit(v, len, j) == bit_at(s, pos + j) by {
        let k = (len - 1 - j) as u8;
        let m = (7 - j) as u8;
        assert(sh <= 7 && k <= 7 && m <= 7 && m == sh + k && v == w >> sh ==> ((v >> k) & 1u8) == ((w >> m) & 1u8)) by (bit_vector);
        assert((((w >> m) & 1u8) == 1u8) == b(j));
    }
    if len < 8 {
        assert(1 <= l8 && l8 < 8 && sh == 8 - l8 && v == w >> sh ==> (v >> l8) == 0u8) by (bit_vector);
    }
    assert(is_group(s, pos, len, (v, len as u32)));
}

// the groups of [pos,end): one per started byte, the k-th packs the bits from pos+8k on
pub proof fn lemma_groups(s: Seq<u8>, pos: int, end: int)
    requires pos <= end
    ensures
        groups(s, pos, end).len() == ubi(end - pos),
        forall|k: int| 0 <= k < ubi(end - pos) ==> #[trigger] groups(s, pos, end)[k] == group_of(s, pos + 8 * k, glen(pos + 8 * k, end))
            && is_group(s, pos + 8 * k, glen(pos + 8 * k, end), groups(s, pos, end)[k]),
    decreases end - pos
{
    if pos < end {
        let l = glen(pos, end);
        lemma_groups(s, pos + l, end);
        lemma_group_exists(s, pos, l);
        let rest = groups(s, pos + l, end);
        assert(groups(s, pos, end) =~= seq![group_of(s, pos, l)] + rest);
        assert forall|k: int| 0 <= k < ubi(end - pos) implies #[trigger] groups(s, pos, end)[k] == group_of(s, pos + 8 * k, glen(pos + 8 * k, end))
            && is_group(s, pos + 8 * k, glen(pos + 8 * k, end), groups(s, pos, end)[k]) by {
            if k > 0 {
                assert(l == 8);
                assert(groups(s, pos, end)[k] == rest[k - 1]);
                assert(pos + l + 8 * (k - 1) == pos + 8 * k);
            }
        }
    }
}

// left-aligning a group gives the byte whose leading bits are the group's bits
pub proof fn lemma_group_left(v: u8, n: int, j: int)
    requires 1 <= n <= 8, 0 <= j < n
    ensures byte_bit(v << ((8 - n) as u8), j) == field_bit(v, n, j)
{
    let sh = (8 - n) as u8; let k = (n - 1 - j) as u8; let m = (7 - j) as u8;
    assert(sh <= 7 && k <= 7 && m <= 7 && m == sh + k ==> (((v << sh) >> m) & 1u8) == ((v >> k) & 1u8)) by (bit_vector);
}

pub proof fn lemma_group_left_pad(v: u8, n: int, j: int)
    requires 1 <= n <= 8, n <= j < 8
    ensures !byte_bit(v << ((8 - n) as u8), j)
{
    let sh = (8 - n) as u8; let m = (7 - j) as u8;
    assert(sh <= 7 && m < sh ==> (((v << sh) >> m) & 1u8) == 0u8) by (bit_vector);
}

// two ranges of equal length have the same groups exactly when they hold the same bits
pub proof fn lemma_groups_eq(a: Seq<u8>, sa: int, b: Seq<u8>, sb: int, n: int)
    requires 0 <= n
    ensures (groups(a, sa, sa + n) == groups(b, sb, sb + n)) <==> (bits_of(a, sa, sa + n) == bits_of(b, sb, sb + n))
{
    lemma_groups(a, sa, sa + n);
    lemma_groups(b, sb, sb + n);
    let ga = groups(a, sa, sa + n); let gb = groups(b, sb, sb + n);
    if ga == gb {
        assert forall|p: int| 0 <= p < n implies #[trigger] bits_of(a, sa, sa + n)[p] == bits_of(b, sb, sb + n)[p] by {
            let k = p / 8; let j = p % 8;
            assert(is_group(a, sa + 8 * k, glen(sa + 8 * k, sa + n), ga[k]));
            assert(is_group(b, sb + 8 * k, glen(sb + 8 * k, sb + n), gb[k]));
            assert(field_bit(ga[k].0, glen(sa + 8 * k, sa + n), j) == bit_at(a, sa + 8 * k + j));
            assert(field_bit(gb[k].0, glen(sb + 8 * k, sb + n), j) == bit_at(b, sb + 8 * k + j));
        }
        assert(bits_of(a, sa, sa + n) =~= bits_of(b, sb, sb + n));
    }
    if bits_of(a, sa, sa + n) == bits_of(b, sb, sb + n) {
        assert forall|k: int| 0 <= k < ubi(n) implies ga[k] == gb[k] by {
            let l = glen(sa + 8 * k, sa + n);
            assert(l == glen(sb + 8 * k, sb + n));
            assert(is_group(a, sa + 8 * k, l, ga[k]));
            assert(is_group(b, sb + 8 * k, l, gb[k]));
            assert forall|j: int| 0 <= j < l implies field_bit(ga[k].0, l, j) == bit_at(b, sb + 8 * k + j) by {
                assert(bits_of(a, sa, sa + n)[8 * k + j] == bits_of(b, sb, sb + n)[8 * k + j]);
            }
            assert(is_group(b, sb + 8 * k, l, ga[k]));
            lemma_group_unique(b, sb + 8 * k, l, ga[k], gb[k]);
        }
        assert(ga =~= gb);
    }
}

pub proof fn lemma_byte_ext(x: u8, y: u8)
    requires forall|j: int| 0 <= j < 8 ==> byte_bit(x, j) == byte_bit(y, j)
    ensures x == y
{
    assert forall|k: int| 0 <= k < 8 implies #[trigger] lowbit(x, k) == lowbit(y, k) by {
        let kk = k as u8;
        assert(byte_bit(x, 7 - k) == byte_bit(y, 7 - k));
        assert((7 - (7 - k)) as u8 == kk);
        assert(((x >> kk) & 1u8) == 0u8 || ((x >> kk) & 1u8) == 1u8) by (bit_vector);
        assert(((y >> kk) & 1u8) == 0u8 || ((y >> kk) & 1u8) == 1u8) by (bit_vector);
    }
    assert(lowbit(x, 0) == lowbit(y, 0)); assert(lowbit(x, 1) == lowbit(y, 1));
    assert(lowbit(x, 2) == lowbit(y, 2)); assert(lowbit(x, 3) == lowbit(y, 3));
    assert(lowbit(x, 4) == lowbit(y, 4)); assert(lowbit(x, 5) == lowbit(y, 5));
    assert(lowbit(x, 6) == lowbit(y, 6)); assert(lowbit(x, 7) == lowbit(y, 7));
    lemma_low_bits_determine(x, y);
}

// ---- hex export
pub uninterp spec fn hexc(n: u32) -> char;     // the hex digit of n < 16 (char::from_digit)
pub open spec fn hex_of(g: Seq<(u8, u32)>, n: int) -> Seq<char>
    decreases n
{
    if n <= 0 || n > g.len() { Seq::empty() } else {
        let (val, len) = g[n - 1];
        hex_of(g, n - 1) + (if len > 4 { seq![hexc(val as u32 >> 4u32), hexc(val as u32 & 0xfu32)] } else { seq![hexc(val as u32 & 0xfu32)] })
    }
}
