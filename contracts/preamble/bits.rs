// ================= preamble: bit-level spec vocabulary (ghost only) =================
// bit `i` (0 = most significant) of byte x
pub open spec fn byte_bit(x: u8, i: int) -> bool {
    0 <= i < 8 && ((x >> ((7 - i) as u8)) & 1u8) == 1u8
}

// bit `j` (0 = most significant) of the low `w` bits of v
pub open spec fn field_bit(v: u8, w: int, j: int) -> bool {
    0 <= j < w <= 8 && ((v >> ((w - 1 - j) as u8)) & 1u8) == 1u8
}

// bit at absolute bit position `pos` of a byte buffer
pub open spec fn bit_at(s: Seq<u8>, pos: int) -> bool {
    byte_bit(s[pos / 8], pos % 8)
}

pub open spec fn ubi(n: int) -> int { (n + 7) / 8 }

pub open spec fn bits01(v: Seq<bool>) -> Seq<u8> { v.map_values(|b: bool| if b { 1u8 } else { 0u8 }) }

pub open spec fn bit_mask_spec(l: u32) -> u32 { !(0xffu32 << l) & 0xffu32 }

// the bits [lo, hi) of a buffer as a sequence
pub open spec fn bits_of(s: Seq<u8>, lo: int, hi: int) -> Seq<bool> {
    Seq::new((hi - lo) as nat, |i: int| bit_at(s, lo + i))
}

// g packs bits [pos, pos+len) of s, right aligned, high bits zero
pub open spec fn is_group(s: Seq<u8>, pos: int, len: int, g: (u8, u32)) -> bool {
    &&& g.1 == len
    &&& 1 <= len <= 8
    &&& forall|j: int| 0 <= j < len ==> field_bit(g.0, len, j) == bit_at(s, pos + j)
    &&& (len < 8 ==> (g.0 >> (len as u8)) == 0u8)
}

pub proof fn lemma_zero_byte(i: int)
    ensures !byte_bit(0u8, i)
{
    if 0 <= i < 8 {
        let k = (7 - i) as u8;
        assert(k < 8 ==> (0u8 >> k) & 1u8 == 0u8) by (bit_vector);
    }
}

pub proof fn lemma_mask_keep(b: u8, k: u8, i: u8)
    requires 0 < k < 8, i < 8
    ensures byte_bit(b & (0xffu8 << ((8 - k) as u8)), i as int) == (i < k && byte_bit(b, i as int))
{
    assert(0 < k < 8 && i < 8 ==>
        ((((b & (0xffu8 << ((8 - k) as u8))) >> ((7 - i) as u8)) & 1u8) == 1u8) == (i < k && (((b >> ((7 - i) as u8)) & 1u8) == 1u8))) by (bit_vector);
}

pub proof fn lemma_or_bit(b: u8, x: u8, k: u8, j: u8)
    requires k < 8, j < 8, x <= 1, ((b >> ((7 - k) as u8)) & 1u8) != 1u8
    ensures byte_bit(b | (x << ((7 - k) as u8)), j as int) == (if j == k { x == 1 } else { byte_bit(b, j as int) })
{
    assert(k < 8 && j < 8 && x <= 1 && ((b >> ((7 - k) as u8)) & 1u8) != 1u8 ==>
        (((((b | (x << ((7 - k) as u8))) >> ((7 - j) as u8)) & 1u8) == 1u8)
            == (if j == k { x == 1 } else { ((b >> ((7 - j) as u8)) & 1u8) == 1u8 }))) by (bit_vector);
}

pub proof fn lemma_xor_bit(b: u8, k: u8, j: u8)
    requires k < 8, j < 8
    ensures byte_bit(b ^ (1u8 << ((7 - k) as u8)), j as int) == (if j == k { !byte_bit(b, j as int) } else { byte_bit(b, j as int) })
{
    assert(k < 8 && j < 8 ==>
        (((((b ^ (1u8 << ((7 - k) as u8))) >> ((7 - j) as u8)) & 1u8) == 1u8)
            == (if j == k { !(((b >> ((7 - j) as u8)) & 1u8) == 1u8) } else { ((b >> ((7 - j) as u8)) & 1u8) == 1u8 }))) by (bit_vector);
}

pub proof fn lemma_cut(x: u8, sb: u32, l: u32, j: u32)
    requires sb < 8, 1 <= l, sb + l <= 8, j < l
    ensures
        ((((x >> ((8 - (sb + l)) as u32)) & (bit_mask_spec(l) as u8)) >> ((l - 1 - j) as u8)) & 1u8)
            == ((x >> ((7 - (sb + j)) as u8)) & 1u8)
{
    assert(sb < 8 && 1 <= l && sb + l <= 8 && j < l ==>
        ((((x >> ((8 - (sb + l)) as u32)) & ((!(0xffu32 << l) & 0xffu32) as u8)) >> ((l - 1 - j) as u8)) & 1u8)
            == ((x >> ((7 - (sb + j)) as u8)) & 1u8)) by (bit_vector);
}

pub proof fn lemma_cut_hi(x: u8, sb: u32, l: u32)
    requires sb < 8, 1 <= l, sb + l <= 8
    ensures l < 8 ==> (((x >> ((8 - (sb + l)) as u32)) & (bit_mask_spec(l) as u8)) >> (l as u8)) == 0u8
{
    assert(sb < 8 && 1 <= l && sb + l <= 8 && l < 8 ==>
        (((x >> ((8 - (sb + l)) as u32)) & ((!(0xffu32 << l) & 0xffu32) as u8)) >> (l as u8)) == 0u8) by (bit_vector);
}

pub proof fn lemma_join(v1: u8, v2: u8, n: u32, n2: u32, j: u32)
    requires 1 <= n, 1 <= n2, n + n2 <= 8, j < n + n2, (n < 8 ==> (v1 >> (n as u8)) == 0u8), (n2 < 8 ==> (v2 >> (n2 as u8)) == 0u8)
    ensures
        field_bit((v1 << (n2 as u8)) | v2, (n + n2) as int, j as int)
            == (if j < n { field_bit(v1, n as int, j as int) } else { field_bit(v2, n2 as int, (j - n) as int) })
{
    assert(1 <= n && 1 <= n2 && n + n2 <= 8 && j < n + n2 && (n < 8 ==> (v1 >> (n as u8)) == 0u8) && (n2 < 8 ==> (v2 >> (n2 as u8)) == 0u8) ==>
        ((((((v1 << (n2 as u8)) | v2) >> ((n + n2 - 1 - j) as u8)) & 1u8) == 1u8)
            == (if j < n { ((v1 >> ((n - 1 - j) as u8)) & 1u8) == 1u8 } else { ((v2 >> ((n2 - 1 - (j - n)) as u8)) & 1u8) == 1u8 }))) by (bit_vector);
}

pub proof fn lemma_join_hi(v1: u8, v2: u8, n: u32, n2: u32)
    requires 1 <= n, 1 <= n2, n + n2 <= 8, (n < 8 ==> (v1 >> (n as u8)) == 0u8), (n2 < 8 ==> (v2 >> (n2 as u8)) == 0u8)
    ensures n + n2 < 8 ==> (((v1 << (n2 as u8)) | v2) >> ((n + n2) as u8)) == 0u8
{
    assert(1 <= n && 1 <= n2 && n + n2 < 8 && (v1 >> (n as u8)) == 0u8 && (v2 >> (n2 as u8)) == 0u8 ==>
        (((v1 << (n2 as u8)) | v2) >> ((n + n2) as u8)) == 0u8) by (bit_vector);
}

// byte-aligned append: the buffer after `extend_from_slice` holds both bit sequences back to back
pub proof fn lemma_append_aligned(c: Seq<u8>, tb: Seq<u8>, ts: int, te: int, s: int, e: int, nb: Seq<u8>)
    requires
        0 <= s <= e, e % 8 == 0, c.len() == e / 8,
        0 <= ts <= te <= 8 * tb.len(), ts % 8 == 0, te % 8 == 0,
        nb == c + tb.subrange(ts / 8, te / 8),
    ensures
        bits_of(nb, s, e + (te - ts)) == bits_of(c, s, e) + bits_of(tb, ts, te)
{
    let l = bits_of(nb, s, e + (te - ts));
    let r = bits_of(c, s, e) + bits_of(tb, ts, te);
    assert(l.len() == r.len());
    assert forall|k: int| 0 <= k < l.len() implies l[k] == r[k] by {
        if k < e - s {
            assert(nb[(s + k) / 8] == c[(s + k) / 8]);
        } else {
            let q = k - (e - s);
            assert((e + q) / 8 == e / 8 + q / 8 && (e + q) % 8 == q % 8);
            assert((ts + q) / 8 == ts / 8 + q / 8 && (ts + q) % 8 == q % 8);
            assert(nb[(e + q) / 8] == tb[(ts + q) / 8]);
        }
    }
    assert(l =~= r);
}

// what `truncate(ubi(e))` followed by masking the last partial byte leaves behind
pub open spec fn cleared(old_bytes: Seq<u8>, c: Seq<u8>, s: int, e: int) -> bool {
    &&& c.len() == ubi(e)
    &&& forall|p: int| s <= p < e ==> bit_at(c, p) == bit_at(old_bytes, p)
    &&& forall|p: int| e <= p < 8 * c.len() ==> !bit_at(c, p)
}

pub proof fn lemma_cleared(old_bytes: Seq<u8>, t: Seq<u8>, c: Seq<u8>, s: int, e: int)
    requires
        0 <= s <= e <= 8 * old_bytes.len(),
        t == old_bytes.take(ubi(e)),
        e % 8 == 0 ==> c == t,
        e % 8 > 0 ==> c.len() == t.len() && (forall|i: int| 0 <= i < t.len() && i != e / 8 ==> c[i] == t[i])
            && (forall|i: int| 0 <= i < 8 ==> #[trigger] byte_bit(c[e / 8], i) == (i < e % 8 && byte_bit(t[e / 8], i))),
    ensures cleared(old_bytes, c, s, e)
{
    assert forall|p: int| s <= p < e implies bit_at(c, p) == bit_at(old_bytes, p) by {
        assert(t[p / 8] == old_bytes[p / 8]);
        if e % 8 > 0 && p / 8 == e / 8 { } else { assert(c[p / 8] == t[p / 8]); }
    }
    assert forall|p: int| e <= p < 8 * c.len() implies !bit_at(c, p) by {
        assert(p / 8 == e / 8);
        assert(e % 8 > 0);
    }
}
