// bit-strings are opaque in this unit (their own unit is units/bitstr.rs)
#[verifier::external_body] pub struct Xbitstr { _p: u8 }
impl Clone for Xbitstr { #[verifier::external_body] fn clone(&self) -> (r: Self) ensures r == *self { unimplemented!() } }
