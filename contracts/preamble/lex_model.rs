// character-level model of arcstr strings (see lex_structs.rs / state_types.rs for the opaque types)
pub uninterp spec fn xtext(s: Xstr) -> Seq<char>;
pub uninterp spec fn sub_parent(t: Xsubstr) -> Xstr;
pub uninterp spec fn sub_lo(t: Xsubstr) -> int;
pub uninterp spec fn sub_hi(t: Xsubstr) -> int;

pub open spec fn ulen(c: char) -> int { c.len_utf8() as int }

// byte offset of character k
pub open spec fn off(s: Seq<char>, k: int) -> int
    decreases k
{
    if k <= 0 { 0 } else { off(s, k - 1) + ulen(s[k - 1]) }
}

pub open spec fn blen(s: Seq<char>) -> int { off(s, s.len() as int) }

pub open spec fn is_boundary(s: Seq<char>, b: int) -> bool { exists|k: int| 0 <= k <= s.len() && off(s, k) == b }

// what char_indices still yields from character k on
pub open spec fn cidx(s: Seq<char>, k: int) -> Seq<(usize, char)> {
    Seq::new((s.len() - k) as nat, |j: int| (off(s, k + j) as usize, s[k + j]))
}

impl Xsubstr {
    // a Substr is a range of its parent on character boundaries
    #[verifier::external_body]
    pub fn range(&self) -> (r: Range<usize>)
        ensures
            r.start == sub_lo(*self), r.end == sub_hi(*self),
            0 <= sub_lo(*self) <= sub_hi(*self) <= blen(xtext(sub_parent(*self))),
            is_boundary(xtext(sub_parent(*self)), sub_lo(*self)), is_boundary(xtext(sub_parent(*self)), sub_hi(*self)),
    { unimplemented!() }
    #[verifier::external_body]
    pub fn parent(&self) -> (r: &Xstr)
        ensures *r == sub_parent(*self)
    { unimplemented!() }
}

impl Xstr {
    // str::char_indices through Deref<Target = str>; a str is at most isize::MAX bytes
    #[verifier::external_body]
    pub fn char_indices(&self) -> (r: CharIdx)
        ensures r.rem() == cidx(xtext(*self), 0), r.txt() == xtext(*self), blen(xtext(*self)) <= isize::MAX
    { unimplemented!() }
    // ArcStr::substr panics unless the range lies inside the text on character boundaries
    #[verifier::external_body]
    pub fn substr(&self, r: Range<usize>) -> (t: Xsubstr)
        requires
            r.start <= r.end <= blen(xtext(*self)),
            is_boundary(xtext(*self), r.start as int), is_boundary(xtext(*self), r.end as int),
        ensures sub_parent(t) == *self, sub_lo(t) == r.start, sub_hi(t) == r.end
    { unimplemented!() }
}

impl CharIdx {
    pub uninterp spec fn rem(&self) -> Seq<(usize, char)>;
    pub uninterp spec fn txt(&self) -> Seq<char>;
    #[verifier::external_body]
    pub fn next(&mut self) -> (r: Option<(usize, char)>)
        ensures
            final(self).txt() == old(self).txt(),
            old(self).rem().len() == 0 ==> r is None && final(self).rem() == old(self).rem(),
            old(self).rem().len() > 0 ==> r == Some(old(self).rem()[0]) && final(self).rem() == old(self).rem().drop_first(),
    { unimplemented!() }
}
