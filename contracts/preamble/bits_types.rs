// Bits (src/bitstr.rs): the real type, its closed spec accessor and the prophetic iterator view (remaining() = the bits as 0/1)
//@type src/bitstr.rs struct Bits

impl<'a> Bits<'a> {
    #[verifier::type_invariant]
    spec fn inv(&self) -> bool {
        self.bs.range.start <= self.pos
    }
    pub closed spec fn rem(&self) -> Seq<bool> {
        if self.pos >= self.bs.range.end { Seq::empty() } else {
            Seq::new((self.bs.range.end - self.pos) as nat, |i: int| bit_at(self.bs.data@, self.pos + i))
        }
    }
}

impl<'a> vstd::std_specs::iter::IteratorSpecImpl for Bits<'a> {
    open spec fn obeys_prophetic_iter_laws(&self) -> bool { true }
    open spec fn remaining(&self) -> Seq<u8> { bits01(self.rem()) }
    open spec fn will_return_none(&self) -> bool { true }
    open spec fn decrease(&self) -> Option<nat> { Some(self.rem().len()) }
    open spec fn peek(&self, index: int) -> Option<u8> {
        if 0 <= index < self.rem().len() { Some(if self.rem()[index] { 1u8 } else { 0u8 }) } else { None }
    }
}
