// ---- Rsearch helpers: the first / last index of a vector that satisfies a predicate.  VERIFIED here; that
// `v.iter().position(f)` / `.rposition(f)` of std compute the same for a deterministic predicate is the assumption.
fn verif_position<T, F: Fn(&T) -> bool>(v: &Vec<T>, f: F) -> (r: Option<usize>)
    requires forall|i: int| 0 <= i < v@.len() ==> f.requires((&v@[i],))
    ensures
        r is Some ==> r->0 < v@.len() && f.ensures((&v@[r->0 as int],), true)
            && forall|j: int| 0 <= j < r->0 ==> f.ensures((&v@[j],), false),
        r is None ==> forall|j: int| 0 <= j < v@.len() ==> f.ensures((&v@[j],), false),
{
    let mut k: usize = 0;
    while k < v.len()
        invariant
            k <= v@.len(),
            forall|i: int| 0 <= i < v@.len() ==> f.requires((&v@[i],)),
            forall|j: int| 0 <= j < k ==> f.ensures((&v@[j],), false),
        decreases v@.len() - k
    {
        if f(&v[k]) { return Some(k); }
        k += 1;
    }
    None
}

fn verif_rposition<T, F: Fn(&T) -> bool>(v: &Vec<T>, f: F) -> (r: Option<usize>)
    requires forall|i: int| 0 <= i < v@.len() ==> f.requires((&v@[i],))
    ensures
        r is Some ==> r->0 < v@.len() && f.ensures((&v@[r->0 as int],), true)
            && forall|j: int| r->0 < j < v@.len() ==> f.ensures((&v@[j],), false),
        r is None ==> forall|j: int| 0 <= j < v@.len() ==> f.ensures((&v@[j],), false),
{
    let mut k: usize = v.len();
    while k > 0
        invariant
            k <= v@.len(),
            forall|i: int| 0 <= i < v@.len() ==> f.requires((&v@[i],)),
            forall|j: int| k <= j < v@.len() ==> f.ensures((&v@[j],), false),
        decreases k
    {
        k -= 1;
        if f(&v[k]) { return Some(k); }
    }
    None
}

fn verif_rfind<'a, T, F: Fn(&&'a T) -> bool>(v: &'a Vec<T>, f: F) -> (r: Option<&'a T>)
    requires forall|i: int| 0 <= i < v@.len() ==> f.requires((&&v@[i],))
    ensures
        r is Some ==> exists|k: int| 0 <= k < v@.len() && *r->0 == v@[k] && f.ensures((&&v@[k],), true)
            && forall|j: int| k < j < v@.len() ==> f.ensures((&&v@[j],), false),
        r is None ==> forall|j: int| 0 <= j < v@.len() ==> f.ensures((&&v@[j],), false),
{
    let mut k: usize = v.len();
    while k > 0
        invariant
            k <= v@.len(),
            forall|i: int| 0 <= i < v@.len() ==> f.requires((&&v@[i],)),
            forall|j: int| k <= j < v@.len() ==> f.ensures((&&v@[j],), false),
        decreases k
    {
        k -= 1;
        let e = &v[k];
        if f(&e) { return Some(e); }
    }
    None
}

fn verif_find<'a, T, F: Fn(&&'a T) -> bool>(v: &'a [T], f: F) -> (r: Option<&'a T>)
    requires forall|i: int| 0 <= i < v@.len() ==> f.requires((&&v@[i],))
    ensures
        r is Some ==> exists|k: int| 0 <= k < v@.len() && *r->0 == v@[k] && f.ensures((&&v@[k],), true)
            && forall|j: int| 0 <= j < k ==> f.ensures((&&v@[j],), false),
        r is None ==> forall|j: int| 0 <= j < v@.len() ==> f.ensures((&&v@[j],), false),
{
    let mut k: usize = 0;
    while k < v.len()
        invariant
            k <= v@.len(),
            forall|i: int| 0 <= i < v@.len() ==> f.requires((&&v@[i],)),
            forall|j: int| 0 <= j < k ==> f.ensures((&&v@[j],), false),
        decreases v@.len() - k
    {
        let e = &v[k];
        if f(&e) { return Some(e); }
        k += 1;
    }
    None
}
