// Iter8 (src/bitstr.rs): the real type, its closed spec accessors and the prophetic iterator view (remaining() = groups)
//@type src/bitstr.rs struct Iter8

impl<'a> Iter8<'a> {
    #[verifier::type_invariant]
    spec fn inv(&self) -> bool {
        self.bs.range.start <= self.pos
    }
    pub closed spec fn cur(&self) -> int { self.pos as int }
    pub closed spec fn src(&self) -> &Bitstr { self.bs }
    // the 8-bit groups still to come
    pub closed spec fn grp(&self) -> Seq<(u8, u32)> { groups(self.bs.data@, self.pos as int, self.bs.range.end as int) }
}

impl<'a> vstd::std_specs::iter::IteratorSpecImpl for Iter8<'a> {
    open spec fn obeys_prophetic_iter_laws(&self) -> bool { true }
    open spec fn remaining(&self) -> Seq<(u8, u32)> { self.grp() }
    open spec fn will_return_none(&self) -> bool { true }
    open spec fn decrease(&self) -> Option<nat> { Some(self.grp().len()) }
    open spec fn peek(&self, index: int) -> Option<(u8, u32)> {
        if 0 <= index < self.grp().len() { Some(self.grp()[index]) } else { None }
    }
}

