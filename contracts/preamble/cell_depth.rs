// cells are finite trees (ASSUMED): an element of a vector is smaller than the vector, a value no bigger than its tagged form
pub uninterp spec fn cell_depth(c: Cell) -> nat;
#[verifier::external_body] proof fn axiom_depth_elem(v: Xvec, i: int) requires 0 <= i < v@.len() ensures cell_depth(v@[i]) < cell_depth(Cell::Vector(v)) {}
#[verifier::external_body] proof fn axiom_depth_strip(c: Cell) ensures cell_depth(strip(c)) <= cell_depth(c) {}

