// ---- opaque leaf types of the lexer unit: arcstr::ArcStr / arcstr::Substr (text = a sequence of chars, positions =
// byte offsets into its UTF-8 encoding) and core::str::CharIndices.  Everything here is an ASSUMED contract of a dependency.
#[verifier::external_body] pub struct Xstr { _p: u8 }
#[verifier::external_body] pub struct Xsubstr { _p: u8 }
#[verifier::external_body] pub struct CharIdx { _p: u8 }

impl Clone for Xstr { #[verifier::external_body] fn clone(&self) -> (r: Self) ensures r == *self { unimplemented!() } }
impl Clone for Xsubstr { #[verifier::external_body] fn clone(&self) -> (r: Self) ensures r == *self { unimplemented!() } }

