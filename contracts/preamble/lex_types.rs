//@include preamble/lex_structs.rs
//@include preamble/lex_model.rs
