// bit-strings are the real type in this unit; the contracts of its methods are the ones proved
// in units/bitstr.rs, here in their assumed rendering
//@include preamble/bits.rs
pub type Xbitstr = Bitstr;
pub assume_specification<T>[ <T as core::convert::From<T>>::from ](t: T) -> (r: T)
    ensures r == t;
//@type src/bitstr.rs type BitstrRange
//@type src/bitstr.rs struct Bitstr
//@type src/bitstr.rs enum Byteorder keep=PartialEq,Eq,Structural,Clone,Copy
//@type src/bitstr.rs const LITTLE
//@type src/bitstr.rs const BIG
//@type src/bitstr.rs const NATIVE
impl Clone for Bitstr {
    #[verifier::external_body]
    fn clone(&self) -> (r: Self) ensures r == *self { unimplemented!() }
}
//@include spec/bitstr_specs.rs
impl Bitstr {
//@use bitstr.fns Bitstr::start assumed
//@use bitstr.fns Bitstr::end assumed
//@use bitstr.fns Bitstr::len assumed
//@use bitstr.fns Bitstr::is_bytestr assumed
//@use bitstr.fns Bitstr::seek assumed
//@use bitstr.fns Bitstr::read assumed
//@use bitstr.fns Bitstr::peek assumed
//@use bitstr.fns Bitstr::substr assumed
//@use bitstr.fns Bitstr::split_at assumed
//@use bitstr.fns Bitstr::bits_range assumed
//@use bitstr.fns Bitstr::append assumed
//@use bitstr.fns Bitstr::invert assumed
//@use bitstr.fns Bitstr::slice assumed
//@use bitstr.fns Bitstr::to_hex_string assumed
//@use bitstr.fns Bitstr::from_hex_str assumed
//@use bitstr.fns Bitstr::eq_with assumed
//@use bitstr.fns Bitstr::iter8 assumed
//@use bitstr.fns Bitstr::bits assumed
//@use bitstr.fns Bitstr::new assumed
//@use bitstr.fns "impl From<Vec<u8>> for Bitstr"::from assumed
}

//@include preamble/iter8_types.rs
impl<'a> Iterator for Iter8<'a> {
    type Item = (u8, u32);
//@use bitstr.fns "impl<'a> Iterator for Iter8<'a>"::next assumed
}

//@include preamble/bits_types.rs
impl<'a> Iterator for Bits<'a> {
    type Item = u8;
//@use bitstr.fns "impl<'a> Iterator for Bits<'a>"::next assumed
}
// derived Clone is structural (ASSUMED): what `Iterator::cycle` restarts from
impl<'a> Clone for Bits<'a> {
    #[verifier::external_body]
    fn clone(&self) -> (r: Self) ensures r == *self { unimplemented!() }
}

