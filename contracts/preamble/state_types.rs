// ================= preamble for the interpreter-state units =================
// Leaf types no obligation looks inside are opaque stand-ins (the real ones are type aliases of
// rpds / arcstr / Rc types, which Verus cannot see); everything else is extracted verbatim.

pub assume_specification<T> [ <[T]>::swap ] (s: &mut [T], a: usize, b: usize)
    requires a < old(s)@.len(), b < old(s)@.len()
    ensures final(s)@ == old(s)@.update(a as int, old(s)@[b as int]).update(b as int, old(s)@[a as int]);

pub assume_specification<Idx: Clone>[ <Range<Idx> as Clone>::clone ](r: &Range<Idx>) -> (c: Range<Idx>)
    ensures c == *r;

pub assume_specification<Idx>[ Range::<Idx>::is_empty ](r: &Range<Idx>) -> (b: bool)
    where Idx: core::cmp::PartialOrd + core::cmp::PartialOrd
    ensures b == !(r.start.partial_cmp_spec(&r.end) == Some(core::cmp::Ordering::Less));

#[verifier::external_body] pub struct Xstr { _p: u8 }
impl Clone for Xstr { #[verifier::external_body] fn clone(&self) -> (r: Self) ensures r == *self { unimplemented!() } }
pub uninterp spec fn xstr_chars(x: Xstr) -> Seq<char>;
impl From<String> for Xstr { #[verifier::external_body] fn from(s: String) -> (r: Self) ensures xstr_chars(r) == s@ { unimplemented!() } }
#[verifier::external_body] pub struct Xsubstr { _p: u8 }
impl Clone for Xsubstr { #[verifier::external_body] fn clone(&self) -> (r: Self) ensures r == *self { unimplemented!() } }
impl Default for Xsubstr { #[verifier::external_body] fn default() -> Self { unimplemented!() } }

// R3: message text is dropped, which error variant is built is kept
#[verifier::external_body] pub fn verif_fmt() -> String { unimplemented!() }

// rpds::Vector<Cell> as a persistent sequence (assumed contracts of the operations verified code uses)
#[verifier::external_body] pub struct Xvec { _p: u8 }
impl Clone for Xvec { #[verifier::external_body] fn clone(&self) -> (r: Self) ensures r == *self { unimplemented!() } }
impl Default for Xvec { #[verifier::external_body] fn default() -> (r: Self) ensures r@ == Seq::<Cell>::empty() { unimplemented!() } }
impl Xvec {
    pub uninterp spec fn view(&self) -> Seq<Cell>;
    #[verifier::external_body] pub fn new() -> (r: Xvec) ensures r@ == Seq::<Cell>::empty() { unimplemented!() }
    #[verifier::external_body] pub fn len(&self) -> (r: usize) ensures r == self@.len() { unimplemented!() }
    #[verifier::external_body] pub fn push_back_mut(&mut self, c: Cell) ensures final(self)@ == old(self)@.push(c) { unimplemented!() }
    #[verifier::external_body] pub fn set_mut(&mut self, i: usize, c: Cell) -> (r: bool)
        ensures r == (i < old(self)@.len()), r ==> final(self)@ == old(self)@.update(i as int, c), !r ==> final(self)@ == old(self)@ { unimplemented!() }
    #[verifier::external_body] pub fn get(&self, i: usize) -> (r: Option<&Cell>)
        ensures i < self@.len() ==> r == Some(&self@[i as int]), i >= self@.len() ==> r is None { unimplemented!() }
    #[verifier::external_body] pub fn drop_last_mut(&mut self) -> (r: bool)
        ensures r == (old(self)@.len() > 0), r ==> final(self)@ == old(self)@.drop_last(), !r ==> final(self)@ == old(self)@ { unimplemented!() }
}
#[verifier::external_body] pub struct Xmap { _p: u8 }
impl Clone for Xmap { #[verifier::external_body] fn clone(&self) -> (r: Self) ensures r == *self { unimplemented!() } }
#[verifier::external_body] pub struct Xanyrc { _p: u8 }
impl Clone for Xanyrc { #[verifier::external_body] fn clone(&self) -> (r: Self) ensures r == *self { unimplemented!() } }
#[verifier::external_body] pub struct XfnPtr { _p: u8 }
impl Clone for XfnPtr { #[verifier::external_body] fn clone(&self) -> (r: Self) ensures r == *self { unimplemented!() } }
impl Copy for XfnPtr {}
#[verifier::external_body] pub struct CellBox { _p: u8 }
impl Clone for CellBox { #[verifier::external_body] fn clone(&self) -> (r: Self) ensures r == *self { unimplemented!() } }
impl CellBox {
    pub uninterp spec fn cell(&self) -> Cell;
    #[verifier::external_body] pub fn as_ref(&self) -> (r: &Cell) ensures *r == self.cell() { unimplemented!() }
    #[verifier::external_body] pub fn from(c: Cell) -> (r: CellBox) ensures r.cell() == c { unimplemented!() }
}
#[verifier::external_body] pub struct TokenLocation { _p: u8 }
#[verifier::external_body] pub struct OutString { _p: u8 }

pub type Xint = i128;
pub type Xreal = f64;

//@type src/cell.rs struct WithTag
//@type src/cell.rs enum Xfn
//@type src/cell.rs struct CellRef
//@type src/cell.rs enum Cell
impl Clone for Xfn { #[verifier::external_body] fn clone(&self) -> (r: Self) ensures r == *self { unimplemented!() } }
impl Clone for CellRef { #[verifier::external_body] fn clone(&self) -> (r: Self) ensures r == *self { unimplemented!() } }
impl Copy for CellRef {}
impl Clone for Cell { #[verifier::external_body] fn clone(&self) -> (r: Self) ensures r == *self { unimplemented!() } }
//@type src/cell.rs const ZERO
//@type src/cell.rs const ONE
//@type src/cell.rs const NIL
//@type src/cell.rs const TRUE
//@type src/cell.rs const FALSE
impl CellRef {
//@use cell.fns CellRef::index
//@use cell.fns CellRef::heap_ref
}

//@type src/error.rs enum Xerr
impl Clone for Xerr { #[verifier::external_body] fn clone(&self) -> (r: Self) ensures r == *self { unimplemented!() } }
pub type Xresult = Result<(), Xerr>;
pub type Xresult1<T> = Result<T, Xerr>;
pub const OK: Xresult = Ok(());

// error constructors (src/error.rs): only "returns some error value" is used
impl Xerr {
    #[verifier::external_body] pub fn local_out_of_bounds(idx: usize) -> Xerr { unimplemented!() }
    #[verifier::external_body] pub fn cell_out_of_bounds(cref: CellRef) -> Xerr { unimplemented!() }
    #[verifier::external_body] pub fn const_context() -> Xerr { unimplemented!() }
    #[verifier::external_body] pub fn unbalanced_context() -> Xerr { unimplemented!() }
    #[verifier::external_body] pub fn unbalanced_vec_builder() -> Xerr { unimplemented!() }
    #[verifier::external_body] pub fn unbalanced_else() -> Xerr { unimplemented!() }
    #[verifier::external_body] pub fn unbalanced_then() -> Xerr { unimplemented!() }
    #[verifier::external_body] pub fn unbalanced_endcase() -> Xerr { unimplemented!() }
    #[verifier::external_body] pub fn unbalanced_endof() -> Xerr { unimplemented!() }
    #[verifier::external_body] pub fn unbalanced_until() -> Xerr { unimplemented!() }
    #[verifier::external_body] pub fn unbalanced_while() -> Xerr { unimplemented!() }
    #[verifier::external_body] pub fn unbalanced_repeat() -> Xerr { unimplemented!() }
    #[verifier::external_body] pub fn unbalanced_loop() -> Xerr { unimplemented!() }
    #[verifier::external_body] pub fn unbalanced_break() -> Xerr { unimplemented!() }
    #[verifier::external_body] pub fn expect_fn_context() -> Xerr { unimplemented!() }
    #[verifier::external_body] pub fn let_expect_key_lit() -> Xerr { unimplemented!() }
    #[verifier::external_body] pub fn let_name_or_lit() -> Xerr { unimplemented!() }
    #[verifier::external_body] pub fn unbalanced_tag_map_builder() -> Xerr { unimplemented!() }
    #[verifier::external_body] pub fn unbalanced_enum_builder() -> Xerr { unimplemented!() }
    #[verifier::external_body] pub fn unbalanced_do() -> Xerr { unimplemented!() }
}

//@type src/opcodes.rs struct RelativeJump
impl Clone for RelativeJump { #[verifier::external_body] fn clone(&self) -> (r: Self) ensures r == *self { unimplemented!() } }
impl Copy for RelativeJump {}
//@type src/opcodes.rs enum Opcode

//@type src/state.rs enum Entry
//@type src/state.rs struct DictEntry
//@type src/state.rs struct FunctionFlow
//@type src/state.rs struct EnumFlow
//@type src/state.rs enum Flow
//@type src/state.rs struct Loop
//@type src/state.rs enum Special
//@type src/state.rs enum ContextMode keep=PartialEq,Eq,Structural
//@type src/state.rs struct Context
//@type src/state.rs struct Frame
//@type src/state.rs enum ReverseStep
//@type src/state.rs struct ErrorContext
//@type src/bitstr_ext.rs struct BitstrState
//@type src/state.rs struct State

impl Clone for Loop { #[verifier::external_body] fn clone(&self) -> (r: Self) ensures r == *self { unimplemented!() } }
impl Clone for Frame { #[verifier::external_body] fn clone(&self) -> (r: Self) ensures r == *self { unimplemented!() } }
impl Clone for Special { #[verifier::external_body] fn clone(&self) -> (r: Self) ensures r == *self { unimplemented!() } }
impl Clone for ContextMode { #[verifier::external_body] fn clone(&self) -> (r: Self) ensures r == *self { unimplemented!() } }
impl Clone for Context { #[verifier::external_body] fn clone(&self) -> (r: Self) ensures r == *self { unimplemented!() } }
