#![allow(unused_imports, dead_code, unused_variables, unused_mut, unused_assignments, non_camel_case_types)]
use vstd::prelude::*;
use std::ops::Range;
verus! {

global size_of usize == 8;

//@include preamble/lex_types.rs
//@include spec/lex_specs.rs
//@include preamble/search.rs
// arcstr `==`: equality of the texts (ASSUMED)
#[verifier::external_body] fn xstr_text_eq(a: &Xstr, b: &Xstr) -> (r: bool) ensures r == (xtext(*a) == xtext(*b)) { unimplemented!() }

//@type src/lex.rs struct TokenLocation
//@include preamble/fmt_sink.rs
impl core::fmt::Display for Xstr { #[verifier::external_body] fn fmt(&self, f: &mut core::fmt::Formatter<'_>) -> core::fmt::Result { unimplemented!() } }
impl TokenLocation {
//@use lex.fns "impl fmt::Debug for TokenLocation"::fmt
}
// `str::is_char_boundary` / `&s[..end]` (through ArcStr's Deref<Target = str>): ASSUMED std - slicing panics unless `end`
// is a character boundary inside the text
#[verifier::external_body] fn verif_is_char_boundary(s: &Xstr, i: usize) -> (r: bool)
    ensures r == (i <= blen(xtext(*s)) && is_boundary(xtext(*s), i as int))
{ unimplemented!() }
#[verifier::external_body] fn verif_str_prefix(s: &Xstr, end: usize) -> (r: &str)
    requires end <= blen(xtext(*s)), is_boundary(xtext(*s), end as int)
{ unimplemented!() }
//@use lex.fns "impl fmt::Debug for Cell"::fmt#str_elided

// ---- the lexer state
//@type src/lex.rs struct Lex
impl Lex {
    spec fn txt(&self) -> Seq<char> { xtext(self.buf) }
    // both cursors sit on character boundaries inside the text, the token start not behind the read position
    spec fn ok(&self) -> bool {
        &&& is_boundary(self.txt(), self.pos as int) && is_boundary(self.txt(), self.start_pos as int)
        &&& self.start_pos <= self.pos <= blen(self.txt())
        &&& blen(self.txt()) <= isize::MAX
    }
    // character index of the read position
    spec fn cidx(&self) -> int { choose|k: int| 0 <= k <= self.txt().len() && off(self.txt(), k) == self.pos }
}
// `buf[pos..].chars().next()` (str slicing + Chars): ASSUMED: the character that starts at byte `pos`, none at the end;
// slicing panics unless `pos` is a character boundary inside the text
#[verifier::external_body]
fn verif_char_at(b: &Xstr, pos: usize) -> (r: Option<char>)
    requires is_boundary(xtext(*b), pos as int), pos <= blen(xtext(*b))
    ensures forall|k: int| 0 <= k <= xtext(*b).len() && off(xtext(*b), k) == pos ==> r == (if k < xtext(*b).len() { Some(xtext(*b)[k]) } else { None::<char> })
{ unimplemented!() }

impl Lex {
//@use lex.fns Lex::peek_char
//@use lex.fns Lex::take_char
//@use lex.fns Lex::skip_line
//@use lex.fns Lex::last_substr
}

//@use lex.fns ::token_filename
//@use lex.fns ::token_location

} // verus!
fn main() {}
