#![allow(unused_imports, dead_code, unused_variables, unused_mut, unused_assignments, non_camel_case_types)]
use vstd::prelude::*;
use std::ops::Range;
verus! {

global size_of usize == 8;

//@include preamble/lex_types.rs
//@include spec/lex_specs.rs

//@type src/lex.rs struct TokenLocation

//@use lex.fns ::token_filename
//@use lex.fns ::token_location

} // verus!
fn main() {}
