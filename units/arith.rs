#![feature(allocator_api)]
#![allow(unused_imports, dead_code, unused_variables, unused_mut, unused_assignments, non_camel_case_types)]
use vstd::prelude::*;
use std::rc::Rc;
use std::ops::Range;
use std::cmp::Ordering;
use vstd::std_specs::cmp::PartialOrdSpec;
verus! {

global size_of usize == 8;

//@include preamble/xbitstr_opaque.rs
//@include preamble/state_types.rs
//@include preamble/lex_opaque.rs
//@include spec/machine.rs
//@include spec/state_specs.rs
//@include spec/cell_specs.rs
//@include spec/xmap_specs.rs
//@include spec/arith_specs.rs

#[verifier::external_body] fn verif_lit_xstr() -> Xstr { unimplemented!() }

//@use cell.fns ::cell_type_error assumed
impl Cell {
//@use cell.fns Cell::value assumed
//@use cell.fns Cell::to_bool assumed
//@use cell.fns Cell::to_xint assumed
//@use cell.fns Cell::to_real assumed
}

impl State {
//@use state.fns State::push_data assumed
//@use state.fns State::pop_data assumed
//@use state.fns State::top_data assumed
}

impl vstd::std_specs::convert::FromSpecImpl<i128> for Cell {
    open spec fn obeys_from_spec() -> bool { true }
    open spec fn from_spec(x: i128) -> Cell { Cell::Int(x) }
}
impl From<i128> for Cell {
//@use cell.fns "impl From<i128> for Cell"::from
}
impl vstd::std_specs::convert::FromSpecImpl<f64> for Cell {
    open spec fn obeys_from_spec() -> bool { true }
    open spec fn from_spec(x: f64) -> Cell { Cell::Real(x) }
}
impl From<f64> for Cell {
//@use cell.fns "impl From<f64> for Cell"::from
}
impl vstd::std_specs::convert::FromSpecImpl<bool> for Cell {
    open spec fn obeys_from_spec() -> bool { true }
    open spec fn from_spec(x: bool) -> Cell { Cell::Flag(x) }
}
impl From<bool> for Cell {
//@use cell.fns "impl From<bool> for Cell"::from
}
impl vstd::std_specs::convert::FromSpecImpl<u32> for Cell {
    open spec fn obeys_from_spec() -> bool { true }
    open spec fn from_spec(x: u32) -> Cell { Cell::Int(x as i128) }
}
impl From<u32> for Cell {
//@use cell.fns "impl From<u32> for Cell"::from
}

//@use arith.fns ::num_type_error
//@use arith.fns ::arithmetic_ops_int
//@use arith.fns ::core_word_bitand
//@use arith.fns ::core_word_bitor
//@use arith.fns ::core_word_bitxor
//@use arith.fns ::arithmetic_ops_real
//@use arith.fns ::core_word_add
//@use arith.fns ::core_word_sub
//@use arith.fns ::core_word_mul
//@use arith.fns ::core_word_div
//@use arith.fns ::core_word_rem
//@use arith.fns ::core_word_neg
//@use arith.fns ::core_word_abs
//@use arith.fns ::compare_reals
//@use arith.fns ::compare_cells
//@use arith.fns ::core_word_is_zero
//@use arith.fns ::core_word_is_positive
//@use arith.fns ::core_word_is_negative
//@use arith.fns ::core_word_bitnot
//@use arith.fns ::logical_not
//@use arith.fns ::logical_and
//@use arith.fns ::logical_or
//@use arith.fns ::logical_xor
//@use arith.fns ::core_word_min
//@use arith.fns ::core_word_max
//@use arith.fns ::core_word_bitshl
//@use arith.fns ::core_word_bitshr
//@use arith.fns ::core_word_popcnt
//@use arith.fns ::core_word_round
//@use arith.fns ::core_word_into_real
//@use arith.fns ::core_word_into_int

// std: Ordering predicates (assumed)
pub assume_specification [std::cmp::Ordering::is_lt] (o: Ordering) -> (r: bool) ensures r == (o == Ordering::Less);
pub assume_specification [std::cmp::Ordering::is_le] (o: Ordering) -> (r: bool) ensures r == (o != Ordering::Greater);
pub assume_specification [std::cmp::Ordering::is_gt] (o: Ordering) -> (r: bool) ensures r == (o == Ordering::Greater);
pub assume_specification [std::cmp::Ordering::is_ge] (o: Ordering) -> (r: bool) ensures r == (o != Ordering::Less);
pub assume_specification [std::cmp::Ordering::is_eq] (o: Ordering) -> (r: bool) ensures r == (o == Ordering::Equal);
pub assume_specification [std::cmp::Ordering::is_ne] (o: Ordering) -> (r: bool) ensures r == (o != Ordering::Equal);
//@use arith.fns ::load#w_cmp_lt
//@use arith.fns ::load#w_cmp_le
//@use arith.fns ::load#w_cmp_gt
//@use arith.fns ::load#w_cmp_ge
//@use arith.fns ::load#w_cmp_eq
//@use arith.fns ::load#w_cmp_ne

#[verifier::external_body] fn verif_getrandom4(buf: &mut [u8; 4]) { unimplemented!() }
#[verifier::external_body] fn verif_unit_real(buf: [u8; 4]) -> f64 { unimplemented!() }
//@use arith.fns ::core_word_random
//@use arithwords.fns ::load#w_random
// the function-path bindings of the word table (Rword + same_as)
//@use arithwords.fns ::load#w__plus
//@use arithwords.fns ::load#w__
//@use arithwords.fns ::load#w__star
//@use arithwords.fns ::load#w__slash
//@use arithwords.fns ::load#w_neg
//@use arithwords.fns ::load#w_abs
//@use arithwords.fns ::load#w_rem
//@use arithwords.fns ::load#w_and
//@use arithwords.fns ::load#w_or
//@use arithwords.fns ::load#w_xor
//@use arithwords.fns ::load#w_not
//@use arithwords.fns ::load#w_band
//@use arithwords.fns ::load#w_bor
//@use arithwords.fns ::load#w_bxor
//@use arithwords.fns ::load#w_bnot
//@use arithwords.fns ::load#w_bsl
//@use arithwords.fns ::load#w_bsr
//@use arithwords.fns ::load#w_round
//@use arithwords.fns ::load#w_min
//@use arithwords.fns ::load#w_max
//@use arithwords.fns ::load#w__toreal
//@use arithwords.fns ::load#w__toint
//@use arithwords.fns ::load#w_zero_q
//@use arithwords.fns ::load#w_positive_q
//@use arithwords.fns ::load#w_negative_q
//@use arithwords.fns ::load#w_popcnt

// small State getters a changed body may start to use (assumed renderings of verified contracts; unit state proves them)
impl State {
//@use state.fns State::data_depth assumed
//@use state.fns State::get_var assumed
//@use state.fns State::is_running assumed
//@use state.fns State::ip assumed
//@use state.fns State::is_recording assumed
}

} // verus!
fn main() {}
