#![feature(allocator_api)]
#![allow(unused_imports, dead_code, unused_variables, unused_mut, unused_assignments, non_camel_case_types)]
use vstd::prelude::*;
use std::rc::Rc;
use std::ops::Range;
use vstd::std_specs::cmp::PartialOrdSpec;
verus! {

global size_of usize == 8;

//@include preamble/xbitstr_opaque.rs
//@include preamble/state_types.rs
//@include preamble/lex_opaque.rs
//@include spec/cell_specs.rs
//@include spec/xmap_specs.rs

// R3c: string constants (message text is dropped)
#[verifier::external_body] fn verif_lit_xstr() -> Xstr { unimplemented!() }

//@use cell.fns ::cell_type_error

impl Cell {
//@use cell.fns Cell::value
//@use cell.fns Cell::to_bool
//@use cell.fns Cell::cond_true
//@use cell.fns Cell::to_xint
//@use cell.fns Cell::to_real
//@use cell.fns Cell::to_isize
//@use cell.fns Cell::to_usize
//@use cell.fns Cell::as_map
//@use cell.fns Cell::to_map
//@use cell.fns Cell::vec
//@use cell.fns Cell::to_vec
//@use cell.fns Cell::to_xstr
//@use cell.fns Cell::bitstr
//@use cell.fns Cell::to_bitstr
//@use cell.fns Cell::to_fn
//@use cell.fns Cell::to_any
//@use cell.fns Cell::tags
//@use cell.fns Cell::with_tags
//@use cell.fns Cell::insert_tag
//@use cell.fns Cell::remove_tag
//@use cell.fns Cell::get_tag
}

// ---- formatting flags (src/fmt_flags.rs)
//@type src/fmt_flags.rs const FMT_BASE_MASK
//@type src/fmt_flags.rs const FMT_PREFIX_BIT
//@type src/fmt_flags.rs const FMT_TAGS_BIT
//@type src/fmt_flags.rs const FMT_FITSCREEN_BIT
//@type src/fmt_flags.rs const FMT_UPCASE_BIT
//@type src/fmt_flags.rs const FMT_ALL_BITS
//@type src/fmt_flags.rs struct FmtFlags
impl FmtFlags {
    // the raw value fits the width argument of format! (std panics above u16::MAX): only the twelve flag bits
    #[verifier::type_invariant]
    spec fn inv(&self) -> bool { self.0 <= 0xfff }
    pub closed spec fn raw(&self) -> usize { self.0 }
//@use cell.fns FmtFlags::set_base
//@use cell.fns FmtFlags::base
//@use cell.fns FmtFlags::set_show_prefix
//@use cell.fns FmtFlags::show_prefix
//@use cell.fns FmtFlags::set_show_tags
//@use cell.fns FmtFlags::set_upcase
//@use cell.fns FmtFlags::upcase
//@use cell.fns FmtFlags::show_tags
//@use cell.fns FmtFlags::fitscreen
//@use cell.fns FmtFlags::set_fitscreen
//@use cell.fns FmtFlags::into_raw
//@use cell.fns FmtFlags::from_raw
}
impl Default for FmtFlags {
//@use cell.fns "impl Default for FmtFlags"::default
}
// the `#fmt` tag key (a string-literal constant of src/state.rs): some cell
#[verifier::external_body] fn verif_fmt_tag_name() -> Cell { unimplemented!() }
// `format!("{:1$?}", val, w)`: ASSUMED std - panics when the width argument exceeds u16::MAX (Rust >= 1.87), otherwise some text
#[verifier::external_body] fn verif_format_width(val: &Cell, w: usize) -> (r: String)
    requires w <= u16::MAX
{ unimplemented!() }
impl State {
//@use cell.fns State::parse_fmt_flags
//@use cell.fns State::format_cell
//@use cell.fns State::format_cell_safe
}

// ---- the pixel index of the d2 canvas words (Rstmt)
//@use cell.fns ::data_set#index
//@use cell.fns ::data_get#index

} // verus!
fn main() {}
