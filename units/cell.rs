#![feature(allocator_api)]
#![allow(unused_imports, dead_code, unused_variables, unused_mut, unused_assignments, non_camel_case_types)]
use vstd::prelude::*;
use std::rc::Rc;
use std::ops::Range;
use vstd::std_specs::cmp::PartialOrdSpec;
verus! {

global size_of usize == 8;

//@include preamble/xbitstr_opaque.rs
//@include preamble/state_types.rs
//@include preamble/lex_opaque.rs
//@include spec/cell_specs.rs
//@include spec/xmap_specs.rs

// R3c: string constants (message text is dropped)
#[verifier::external_body] fn verif_lit_xstr() -> Xstr { unimplemented!() }

//@use cell.fns ::cell_type_error

impl Cell {
//@use cell.fns Cell::value
//@use cell.fns Cell::to_bool
//@use cell.fns Cell::cond_true
//@use cell.fns Cell::to_xint
//@use cell.fns Cell::to_real
//@use cell.fns Cell::to_isize
//@use cell.fns Cell::to_usize
//@use cell.fns Cell::as_map
//@use cell.fns Cell::to_map
//@use cell.fns Cell::vec
//@use cell.fns Cell::to_vec
//@use cell.fns Cell::to_xstr
//@use cell.fns Cell::bitstr
//@use cell.fns Cell::to_bitstr
//@use cell.fns Cell::to_fn
//@use cell.fns Cell::to_any
//@use cell.fns Cell::tags
//@use cell.fns Cell::with_tags
//@use cell.fns Cell::insert_tag
//@use cell.fns Cell::remove_tag
//@use cell.fns Cell::get_tag
}

} // verus!
fn main() {}
