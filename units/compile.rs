#![feature(allocator_api)]
#![allow(unused_imports, dead_code, unused_variables, unused_mut, unused_assignments, non_camel_case_types)]
use vstd::prelude::*;
use std::rc::Rc;
use std::ops::Range;
use vstd::std_specs::cmp::PartialOrdSpec;
verus! {

global size_of usize == 8;

//@include preamble/xbitstr_opaque.rs
//@include preamble/state_types.rs
//@include preamble/lex_opaque.rs
//@include spec/cell_specs.rs
//@include spec/xmap_specs.rs
//@include spec/machine.rs
//@include spec/state_specs.rs
//@include preamble/search.rs
//@include spec/compile_specs.rs

// R3p: a panic!/unreachable! site; proving the call unreachable is the obligation
#[verifier::external_body]
fn verif_unreachable()
    requires false
{ unimplemented!() }

impl RelativeJump {
//@use cell.fns RelativeJump::calculate assumed
//@use cell.fns RelativeJump::from_to assumed
//@use cell.fns RelativeJump::uninit assumed
}

impl State {
//@use state.fns State::code_origin assumed
//@use state.fns State::backpatch assumed
//@use compile.fns State::code_emit
//@use compile.fns State::backpatch_jump
//@use compile.fns State::push_flow
//@use compile.fns State::pop_flow
//@use compile.fns State::has_pending_flow
//@use compile.fns State::context_open
//@use compile.fns State::build_mark
//@use compile.fns State::build_abort
//@use compile.fns State::next_token
//@use compile.fns State::build1
//@use compile.fns State::clear_last_error
//@use compile.fns State::build0
//@use compile.fns State::intern_source
//@use state.fns State::load_value_opcode assumed
//@use state.fns State::is_recording assumed
//@use state.fns State::add_reverse_step assumed
//@use state.fns State::pop_data assumed
//@use state.fns State::push_data assumed
//@use state.fns State::data_depth assumed
//@use state.fns State::top_data assumed
//@use state.fns State::is_running assumed
//@use state.fns State::ip assumed
//@use compile.fns State::code_emit_value
//@use compile.fns State::run
//@use compile.fns State::context_close
//@use compile.fns State::build_from_source
//@use compile.fns State::build_from_file
//@use compile.fns State::dict_insert
//@use compile.fns State::dict_key
//@use compile.fns State::dict_entry
//@use compile.fns State::dict_pos
//@use compile.fns State::defvar
//@use compile.fns State::compile_xstr
//@use compile.fns State::compile_file
//@use compile.fns State::evalxstr
//@use compile.fns State::eval_file
//@use compile.fns State::compile
//@use compile.fns State::eval
//@use compile.fns State::defvar_anonymous
//@use compile.fns State::run_immediate
//@use compile.fns State::build_word
//@use compile.fns State::next_name
//@use compile.fns State::top_function_flow
//@use state.fns State::alloc_heap assumed
//@use state.fns State::check_heap_limit assumed
}

// Rext: file system access (src/file.rs) is outside the verified code
#[verifier::external_body]
fn verif_read_source_file(path: &Xstr) -> Xresult1<String> { unimplemented!() }


//@use compile.fns ::take_first_cond_flow
//@use compile.fns ::jump_offset
//@use compile.fns ::core_word_if
//@use compile.fns ::core_word_then
//@use compile.fns ::core_word_else
//@use compile.fns ::case_word
//@use compile.fns ::of_word
//@use compile.fns ::endof_word
//@use compile.fns ::core_word_begin
//@use compile.fns ::core_word_until
//@use compile.fns ::core_word_while
//@use compile.fns ::core_word_do
//@use compile.fns ::core_word_break
//@use compile.fns ::endcase_word
//@use compile.fns ::core_word_repeat
//@use compile.fns ::core_word_loop
//@use compile.fns ::build_global_variable
//@use compile.fns ::build_local_variable
//@use compile.fns ::core_word_def_local
//@use compile.fns ::core_word_variable
//@use compile.fns ::core_word_setvar
//@use compile.fns ::core_word_nil
//@use compile.fns ::core_word_def_begin_named
//@use compile.fns ::core_word_def_begin
//@use compile.fns ::core_word_late
//@use compile.fns ::core_word_const
//@use compile.fns ::core_word_immediate
//@use compile.fns ::core_word_defined
//@use compile.fns ::core_word_nested_begin
//@use compile.fns ::core_word_nested_end
//@use compile.fns ::core_word_def_end

// Rext: Xerr::control_flow_error(flow) formats the open construct into a message: some Err
#[verifier::external_body] fn verif_control_flow_error() -> (r: Xresult) ensures r is Err { unimplemented!() }
// src/lex.rs token_location (verified in unit lex): here a function of the sources and the token
#[verifier::external_body] fn token_location(sources: &[(Xstr, Xstr)], token: &Xsubstr) -> (r: Option<TokenLocation>)
    ensures r == token_location_spec(sources@, *token) { unimplemented!() }
// R13: `Xstr::from(name.as_str())` (arcstr substring -> string): opaque
#[verifier::external_body] fn verif_xstr_of(name: &Xsubstr) -> Xstr { unimplemented!() }
#[verifier::external_body] fn verif_lit_xstr() -> Xstr { unimplemented!() }
// text of a name (opaque): lets code that looks a name up in the dictionary stay inside the unit
pub uninterp spec fn name_text(s: &str) -> Seq<char>;
pub uninterp spec fn xstr_text(s: Xstr) -> Seq<char>;
spec fn dict_last(d: Seq<DictEntry>, t: Seq<char>, i: int) -> bool {
    0 <= i < d.len() && xstr_text(d[i].name) == t && forall|j: int| i < j < d.len() ==> xstr_text(d[j].name) != t
}
pub uninterp spec fn sub_str(t: Xsubstr) -> &'static str;
spec fn name_bound(d: Seq<DictEntry>, t: Seq<char>) -> bool { exists|i: int| 0 <= i < d.len() && #[trigger] xstr_text(d[i].name) == t }
impl vstd::std_specs::convert::FromSpecImpl<bool> for Cell {
    open spec fn obeys_from_spec() -> bool { true }
    open spec fn from_spec(x: bool) -> Cell { Cell::Flag(x) }
}
impl From<bool> for Cell {
//@use cell.fns "impl From<bool> for Cell"::from
}
// `const`: the name t is bound to the constant v afterwards
spec fn const_defined(d0: Seq<DictEntry>, d1: Seq<DictEntry>, t: Seq<char>, v: Cell) -> bool {
    // a new constant when the name is not bound ...
    ||| (forall|i: int| 0 <= i < d0.len() ==> xstr_text(d0[i].name) != t)
        && d1.len() == d0.len() + 1 && d1.drop_last() == d0 && d1.last().entry == Entry::Constant(v) && xstr_text(d1.last().name) == t
    // ... or the LATEST entry of that name, which must be a constant, gets the new value in place
    ||| exists|i: int| #[trigger] dict_last(d0, t, i) && d0[i].entry is Constant && d1.len() == d0.len()
        && d1[i].entry == Entry::Constant(v) && d1[i].name == d0[i].name
        && forall|j: int| 0 <= j < d0.len() && j != i ==> d1[j] == d0[j]
}
impl Xsubstr { #[verifier::external_body] pub fn as_str(&self) -> (r: &str) ensures r == sub_str(*self) { unimplemented!() } }
// `&str -> ArcStr` (arcstr From): opaque
#[verifier::external_body] fn verif_xstr_from_str(s: &str) -> Xstr { unimplemented!() }
// the lexer (verified in units lexer / lex): here only that it yields a token and can name the text it just read
impl Lex {
    #[verifier::external_body] pub fn new(buf: Xstr) -> Lex { unimplemented!() }
    #[verifier::external_body] pub fn next_nonws(&mut self) -> (r: Xresult1<Tok>) ensures r is Ok ==> !(r->Ok_0 is Whitespace) && !(r->Ok_0 is Comment) { unimplemented!() }
    #[verifier::external_body] pub fn last_substr(&self) -> Xsubstr { unimplemented!() }
}
// `Xstr == str` (arcstr): equality of the texts
#[verifier::external_body] fn xstr_eq_str(x: &Xstr, s: &str) -> (r: bool) ensures r == (xstr_text(*x) == name_text(s)) { unimplemented!() }
// `substr == str` (arcstr): equality of the texts
#[verifier::external_body] fn substr_eq_str(x: &Xsubstr, s: &str) -> (r: bool) ensures r == (name_text(sub_str(*x)) == name_text(s)) { unimplemented!() }
pub type Xcell = Cell;
//@type src/lex.rs enum Tok
impl core::ops::Deref for Xsubstr { type Target = str; #[verifier::external_body] fn deref(&self) -> (r: &str) ensures r == sub_str(*self) { unimplemented!() } }
impl Xstr { #[verifier::external_body] pub fn as_str(&self) -> (r: &str) ensures name_text(r) == xstr_text(*self) { unimplemented!() } }
impl Xerr {
    #[verifier::external_body] pub fn conditional_var_definition() -> Xerr { unimplemented!() }
    // formats the open construct into a message: some Err
    #[verifier::external_body] pub fn control_flow_error(flow: Option<&Flow>) -> (r: Xresult) ensures r is Err { unimplemented!() }
    #[verifier::external_body] pub fn unbalanced_fn_builder() -> Xerr { unimplemented!() }
}

// bindings of the core word table (Rword)
//@use corewords.fns State::load_core#w_if
//@use corewords.fns State::load_core#w_else
//@use corewords.fns State::load_core#w_then
//@use corewords.fns State::load_core#w_case
//@use corewords.fns State::load_core#w_of
//@use corewords.fns State::load_core#w_endof
//@use corewords.fns State::load_core#w_endcase
//@use corewords.fns State::load_core#w_begin
//@use corewords.fns State::load_core#w_while
//@use corewords.fns State::load_core#w_until
//@use corewords.fns State::load_core#w_break
//@use corewords.fns State::load_core#w_repeat
//@use corewords.fns State::load_core#w__x3b
//@use corewords.fns State::load_core#w_local
//@use corewords.fns State::load_core#w_var
//@use corewords.fns State::load_core#w__bang
//@use corewords.fns State::load_core#w_nil
//@use corewords.fns State::load_core#w__x23_x28
//@use corewords.fns State::load_core#w__x23_x29
//@use corewords.fns State::load_core#w_do
//@use corewords.fns State::load_core#w_loop

//@use corewords.fns State::load_core#w__x3a

//@use corewords.fns State::load_core#w_late

//@use corewords.fns State::load_core#w_const
//@use corewords.fns State::load_core#w__x5b
//@use corewords.fns State::load_core#w__x5d
//@use corewords.fns State::load_core#w__x7b
//@use corewords.fns State::load_core#w__x7d
//@use corewords.fns State::load_core#w__x5e_x7b
//@use corewords.fns State::load_core#w__x5e_x7d
//@use corewords.fns State::load_core#w_immediate
//@use corewords.fns State::load_core#w_defined
//@use corewords.fns State::load_core#w_let
//@use corewords.fns State::load_core#w__x5ehex
//@use corewords.fns State::load_core#w__x5edec
//@use corewords.fns State::load_core#w__x5eoct
//@use corewords.fns State::load_core#w__x5ebin
//@use corewords.fns State::load_core#w_foreach
//@use corewords.fns State::load_core#w_include
//@use corewords.fns State::load_core#w_require
//@use corewords.fns State::load_core#w_fmt_slashprefix
//@use corewords.fns State::load_core#w_fmt_slashtags
//@use corewords.fns State::load_core#w_fmt_slashupcase
//@use corewords.fns State::load_core#w__ltname_to

// ---- `let`: run-time helper words it compiles calls of (named only), the emitter of a native call, a tag-key constant
#[verifier::external_body] fn core_word_tags(xs: &mut State) -> Xresult { unimplemented!() }
#[verifier::external_body] fn core_word_dup(xs: &mut State) -> Xresult { unimplemented!() }
#[verifier::external_body] fn core_word_assert_eq(xs: &mut State) -> Xresult { unimplemented!() }
#[verifier::external_body] fn let_map_begin(xs: &mut State) -> Xresult { unimplemented!() }
#[verifier::external_body] fn let_map_end(xs: &mut State) -> Xresult { unimplemented!() }
#[verifier::external_body] fn let_map_lookup(xs: &mut State) -> Xresult { unimplemented!() }
#[verifier::external_body] fn let_vec_len(xs: &mut State) -> Xresult { unimplemented!() }
#[verifier::external_body] fn let_vec_any_len(xs: &mut State) -> Xresult { unimplemented!() }
#[verifier::external_body] fn let_vec_at(xs: &mut State) -> Xresult { unimplemented!() }
#[verifier::external_body] fn let_vec_rest(xs: &mut State) -> Xresult { unimplemented!() }
#[verifier::external_body] fn verif_assert_msg_key() -> Cell { unimplemented!() }
impl vstd::std_specs::convert::FromSpecImpl<usize> for Cell {
    open spec fn obeys_from_spec() -> bool { true }
    open spec fn from_spec(x: usize) -> Cell { Cell::Int(x as i128) }
}
impl From<usize> for Cell {
//@use cell.fns "impl From<usize> for Cell"::from
}
impl vstd::std_specs::convert::FromSpecImpl<Xstr> for Cell {
    open spec fn obeys_from_spec() -> bool { true }
    open spec fn from_spec(x: Xstr) -> Cell { Cell::Str(x) }
}
impl From<Xstr> for Cell {
//@use cell.fns "impl From<Xstr> for Cell"::from
}
impl vstd::std_specs::convert::FromSpecImpl<i128> for Cell {
    open spec fn obeys_from_spec() -> bool { true }
    open spec fn from_spec(x: i128) -> Cell { Cell::Int(x) }
}
impl From<i128> for Cell {
//@use cell.fns "impl From<i128> for Cell"::from
}
//@use cell.fns ::cell_type_error assumed
impl Cell {
    #[verifier::external_body] pub fn insert_tag(&self, key: Cell, val: Cell) -> Cell { unimplemented!() }
//@use cell.fns Cell::value assumed
//@use cell.fns Cell::to_xint assumed
}
impl Xerr {
    #[verifier::external_body] pub fn unbalanced_map_builder() -> Xerr { unimplemented!() }
}

impl State {
    // `self.code_emit(Opcode::NativeCall(XfnPtr(f)))` (fn pointer: outside the dialect): ASSUMED to be code_emit of one cell
    #[verifier::external_body] fn code_emit_call_native<F>(&mut self, f: F) -> (r: Xresult)
        requires old(self).code@.len() <= old(self).debug_map@.len()
        ensures r is Ok, *final(self) == (State { code: final(self).code, debug_map: final(self).debug_map, ..*old(self) }),
            final(self).code@.len() == old(self).code@.len() + 1, final(self).code@.len() <= final(self).debug_map@.len(),
            final(self).code@.drop_last() == old(self).code@
    { unimplemented!() }
}
#[verifier::external_body] fn vec_builder_begin(xs: &mut State) -> Xresult { unimplemented!() }
#[verifier::external_body] fn vec_builder_end(xs: &mut State) -> Xresult { unimplemented!() }
#[verifier::external_body] fn map_builder_begin(xs: &mut State) -> Xresult { unimplemented!() }
#[verifier::external_body] fn map_builder_end(xs: &mut State) -> Xresult { unimplemented!() }
#[verifier::external_body] fn collect_tag_map(xs: &mut State) -> Xresult { unimplemented!() }
//@use compile.fns ::core_word_vec_begin
//@use compile.fns ::core_word_vec_end
//@use compile.fns ::core_word_map_begin
//@use compile.fns ::core_word_map_end
//@use compile.fns ::core_word_tagmap_begin
//@use compile.fns ::core_word_tagmap_end
#[verifier::external_body] fn update_fmt_base(xs: &mut State) -> Xresult { unimplemented!() }
#[verifier::external_body] fn foreach_init(xs: &mut State) -> Xresult { unimplemented!() }
#[verifier::external_body] fn foreach_next(xs: &mut State) -> Xresult { unimplemented!() }
//@use compile.fns ::set_fmt_base
#[verifier::external_body] fn update_fmt_prefix(xs: &mut State) -> Xresult { unimplemented!() }
//@use compile.fns ::set_fmt_prefix
#[verifier::external_body] fn update_fmt_tags(xs: &mut State) -> Xresult { unimplemented!() }
//@use compile.fns ::set_fmt_tags
#[verifier::external_body] fn update_fmt_upcase(xs: &mut State) -> Xresult { unimplemented!() }
//@use compile.fns ::set_fmt_upcase
//@use compile.fns ::core_word_foreach
// include / require
pub uninterp spec fn sources_has_name(s: Seq<(Xstr, Xstr)>, name: Xstr) -> bool;
#[verifier::external_body] fn verif_sources_has_name(s: &Vec<(Xstr, Xstr)>, name: &Xstr) -> (r: bool) ensures r == sources_has_name(s@, *name) { unimplemented!() }
#[verifier::external_body] fn verif_xstr_from_owned(s: String) -> Xstr { unimplemented!() }
//@use compile.fns ::filename_literal
//@use compile.fns ::is_filename_included
//@use compile.fns ::include_source
//@use compile.fns ::core_word_include
//@use compile.fns ::core_word_require
//@use compile.fns ::core_word_name
//@use compile.fns ::enum_flow_error
//@use compile.fns ::enum_field_default
//@use compile.fns ::build_let_match
//@use compile.fns ::build_let_vec_next
//@use compile.fns ::build_let_named
//@use compile.fns ::build_let_tags
//@use compile.fns ::build_let_map
//@use compile.fns ::build_let_vec
//@use compile.fns ::build_let_in
//@use compile.fns ::core_word_let

// small State getters a changed body may start to use (assumed renderings of verified contracts; unit state proves them)
impl State {
//@use state.fns State::get_var assumed
}

} // verus!
fn main() {}
