#![feature(allocator_api)]
#![allow(unused_imports, dead_code, unused_variables, unused_mut, unused_assignments)]
use vstd::prelude::*;
use std::rc::Rc;
use std::borrow::Cow;
use std::ops::Range;
use std::convert::From;
verus! {

//@include preamble/bits.rs
//@include spec/lit_specs.rs

// ================= preamble: assumed std contracts =================
pub assume_specification<T, A: core::alloc::Allocator, F: FnMut() -> T>[ Vec::<T, A>::resize_with ](v: &mut Vec<T, A>, new_len: usize, f: F)
    ensures
        final(v)@.len() == new_len,
        forall|i: int| 0 <= i < new_len && i < old(v)@.len() ==> final(v)@[i] == old(v)@[i],
        forall|i: int| old(v)@.len() <= i < new_len ==> f.ensures((), #[trigger] final(v)@[i]);

pub assume_specification<T>[ <T as core::convert::From<T>>::from ](t: T) -> (r: T)
    ensures r == t;

pub assume_specification<Idx: Clone>[ <Range<Idx> as Clone>::clone ](r: &Range<Idx>) -> (c: Range<Idx>)
    ensures c == *r;

pub assume_specification<T: Clone>[ <[T]>::to_vec ](s: &[T]) -> (r: Vec<T>)
    ensures r@.len() == s@.len(), forall|i: int| 0 <= i < s@.len() ==> cloned::<T>(s@[i], #[trigger] r@[i]);
// Iterator::eq and Option<&[u8]> == have no spec in this vstd: the overlays route the two calls in eq_with
// through these (assumed: element-wise comparison of what the iterators still yield / of the slices)
#[verifier::external_body]
fn iter8_eq<'a, 'b>(a: Iter8<'a>, b: Iter8<'b>) -> (r: bool)
    ensures r == (a.grp() == b.grp())
{ a.eq(b) }
#[verifier::external_body]
fn opt_slice_eq(a: Option<&[u8]>, b: Option<&[u8]>) -> (r: bool)
    ensures r == ((a is None && b is None) || (a is Some && b is Some && a->0@ == b->0@))
{ a == b }
pub assume_specification [ String::with_capacity ] (n: usize) -> (r: String)
    ensures r@ == Seq::<char>::empty();
pub assume_specification [ char::from_digit ] (num: u32, radix: u32) -> (r: Option<char>)
    ensures radix == 16 && num < 16 ==> r == Some(hexc(num));
pub assume_specification<T: ?Sized, A: core::alloc::Allocator>[ Rc::<T, A>::strong_count ](this: &Rc<T, A>) -> (r: usize);

// R1: indexing through Rc<Cow<[u8]>> (Cow::deref has no spec in this vstd)
#[verifier::external_body]
fn buf_get(d: &Rc<Cow<'static, [u8]>>, i: usize) -> (r: u8)
    requires i < d@.len()
    ensures r == d@[i as int]
{
    d[i]
}

#[verifier::external_body]
fn buf_slice<'a>(d: &'a Rc<Cow<'static, [u8]>>, r: Range<usize>) -> (s: &'a [u8])
    requires r.start <= r.end <= d@.len()
    ensures s@ == d@.subrange(r.start as int, r.end as int)
{
    &d[r]
}

// `str::chars()` (ASSUMED): the characters in order
#[verifier::external_body] pub struct StrChars<'a> { _p: &'a u8 }
impl<'a> StrChars<'a> {
    pub uninterp spec fn rem(&self) -> Seq<char>;
    #[verifier::external_body] pub fn next(&mut self) -> (r: Option<char>)
        ensures
            old(self).rem().len() == 0 ==> r is None && final(self).rem() == old(self).rem(),
            old(self).rem().len() > 0 ==> r == Some(old(self).rem()[0]) && final(self).rem() == old(self).rem().drop_first(),
    { unimplemented!() }
}
#[verifier::external_body] fn verif_chars<'a>(s: &'a str) -> (r: StrChars<'a>) ensures r.rem() == s@ { unimplemented!() }
pub assume_specification [ char::is_ascii_whitespace ] (c: &char) -> (r: bool)
    ensures r == is_ws(*c);
pub assume_specification [ char::to_digit ] (c: char, radix: u32) -> (r: Option<u32>)
    ensures r is Some ==> r->0 < radix, radix == 16 ==> r == hexval(c);
// one more hex digit packed into the buffer: a fresh byte `val << 4`, or the low nibble of the last byte
proof fn lemma_hex_step(b0: Seq<u8>, b1: Seq<u8>, d0: Seq<u32>, v: u8, n: int)
    requires
        n == 4 * d0.len(), b0.len() == ubi(n), v < 16,
        forall|p: int| 0 <= p < n ==> bit_at(b0, p) == #[trigger] nibs_bits(d0)[p],
        n % 8 == 4 ==> b0[b0.len() - 1] & 0xfu8 == 0u8,
        n % 8 == 0 ==> b1 == b0.push(v << 4u8),
        n % 8 == 4 ==> b1 == b0.update(n / 8, b0[n / 8] | v),
        n % 8 == 0 ==> ((v << 4u8) & 0xfu8 == 0u8
            && ((((v << 4u8) >> 7u8) & 1u8) == ((v >> 3u8) & 1u8)) && ((((v << 4u8) >> 6u8) & 1u8) == ((v >> 2u8) & 1u8))
            && ((((v << 4u8) >> 5u8) & 1u8) == ((v >> 1u8) & 1u8)) && ((((v << 4u8) >> 4u8) & 1u8) == ((v >> 0u8) & 1u8))),
        n % 8 == 4 ==> ({ let b = b0[n / 8];
            (((b | v) >> 7u8) & 1u8) == ((b >> 7u8) & 1u8) && (((b | v) >> 6u8) & 1u8) == ((b >> 6u8) & 1u8)
            && (((b | v) >> 5u8) & 1u8) == ((b >> 5u8) & 1u8) && (((b | v) >> 4u8) & 1u8) == ((b >> 4u8) & 1u8)
            && (((b | v) >> 3u8) & 1u8) == ((v >> 3u8) & 1u8) && (((b | v) >> 2u8) & 1u8) == ((v >> 2u8) & 1u8)
            && (((b | v) >> 1u8) & 1u8) == ((v >> 1u8) & 1u8) && (((b | v) >> 0u8) & 1u8) == ((v >> 0u8) & 1u8) }),
    ensures
        b1.len() == ubi(n + 4),
        forall|p: int| 0 <= p < n + 4 ==> bit_at(b1, p) == #[trigger] nibs_bits(d0.push(v as u32))[p],
        (n + 4) % 8 == 4 ==> b1[b1.len() - 1] & 0xfu8 == 0u8,
{
    let d1 = d0.push(v as u32);
    assert forall|p: int| 0 <= p < n + 4 implies bit_at(b1, p) == #[trigger] nibs_bits(d1)[p] by {
        if p < n {
            assert(nibs_bits(d1)[p] == nibs_bits(d0)[p]);
            assert(b1[p / 8] == b0[p / 8] || (n % 8 == 4 && p / 8 == n / 8));
            if n % 8 == 4 && p / 8 == n / 8 { assert(p % 8 < 4); }
        } else {
            assert(p / 4 == d0.len());
            assert(d1[p / 4] == v as u32);
        }
    }
}
// ================= extracted: src/bitstr.rs =================
//@type src/bitstr.rs type BitstrRange

//@use bitstr.fns ::upper_bound_index
//@use bitstr.fns ::bit_mask
//@use bitstr.fns ::cut_bits

//@type src/bitstr.rs struct Bitstr

// R9: #[derive(Clone, Default)] replaced by structural specs
impl Clone for Bitstr {
    #[verifier::external_body]
    fn clone(&self) -> (r: Self)
        ensures r == *self
    {
        Bitstr { range: self.range.clone(), data: self.data.clone() }
    }
}

//@include spec/bitstr_specs.rs

impl Bitstr {
//@use bitstr.fns Bitstr::start
//@use bitstr.fns Bitstr::end
//@use bitstr.fns Bitstr::len
//@use bitstr.fns Bitstr::is_bytestr
//@use bitstr.fns Bitstr::is_u8_slice
//@use bitstr.fns Bitstr::seek
//@use bitstr.fns Bitstr::read
//@use bitstr.fns Bitstr::peek
//@use bitstr.fns Bitstr::substr
//@use bitstr.fns Bitstr::split_at
//@use bitstr.fns Bitstr::bits_range
//@use bitstr.fns Bitstr::bytes_range
//@use bitstr.fns Bitstr::slice
//@use bitstr.fns Bitstr::bits
//@use bitstr.fns Bitstr::iter8
//@use bitstr.fns Bitstr::data_mut
//@use bitstr.fns Bitstr::to_hex_string
//@use bitstr.fns Bitstr::from_hex_str
//@use bitstr.fns Bitstr::to_bytes_with_padding
//@use bitstr.fns Bitstr::to_bytes
//@use bitstr.fns Bitstr::eq_with
//@use bitstr.fns Bitstr::new
//@use bitstr.fns Bitstr::detach
//@use bitstr.fns Bitstr::append_bits_mut
//@use bitstr.fns Bitstr::append
//@use bitstr.fns Bitstr::insert
//@use bitstr.fns Bitstr::invert
//@use bitstr.fns "impl From<Vec<u8>> for Bitstr"::from
//@use bitstr.fns "impl<'a> From<&'static [u8]> for Bitstr"::from
}

// C07 (bit-string layer): construction is the inverse of parsing.  Lemma over the contracts of
// append and read: reading |a| bits from a ++ b returns a and leaves b; lengths add up.
fn lemma_append_then_read(a: Bitstr, b: &Bitstr)
    requires a.e() + b.view().len() <= usize::MAX
    ensures true
{
    let ghost av = a.view();
    let n = a.len();
    let mut c = a.append(b);
    assert(c.view().len() == av.len() + b.view().len());
    let r = c.read(n);
    assert(r is Some);
    assert(r->0.view() =~= av);
    assert(c.view() =~= b.view());
    let r2 = c.read(b.len());
    assert(r2 is Some && r2->0.view() =~= b.view());
    assert(c.view().len() == 0);
}

//@type src/bitstr.rs struct BitvecBuilder

impl BitvecBuilder {
    spec fn inv(&self) -> bool {
        &&& self.len <= 8 * self.data@.len()
        &&& self.data@.len() == ubi(self.len as int)
        &&& forall|p: int| self.len <= p < 8 * self.data@.len() ==> !bit_at(self.data@, p)
    }
    spec fn bits(&self) -> Seq<bool> { bits_of(self.data@, 0, self.len as int) }
//@use bitstr.fns BitvecBuilder::append_bit
//@use bitstr.fns BitvecBuilder::finish
}

//@include preamble/bits_types.rs

impl<'a> Iterator for Bits<'a> {
    type Item = u8;
//@use bitstr.fns "impl<'a> Iterator for Bits<'a>"::next
}

//@include preamble/iter8_types.rs

impl<'a> Iterator for Iter8<'a> {
    type Item = (u8, u32);
//@use bitstr.fns "impl<'a> Iterator for Iter8<'a>"::next
}

// ---- the printer of bit-strings (C16, last clause): the `Cell::Bitstr` arm of `fmt::Debug for Cell`, lifted by Rarm
//@type src/lex.rs const BIT_CLR_CHAR
//@type src/lex.rs const BIT_SET_CHAR
//@include preamble/fmt_sink.rs
// `write!(f, "{:X}", v)` for v < 16 appends ONE character whose value as a hex digit is v (ASSUMED std UpperHex)
pub uninterp spec fn upper_hex(v: u8) -> char;
#[verifier::external_body] pub fn verif_upper_hex(f: &mut Formatter, v: u8) -> (r: FmtResult)
    ensures r is Ok && v < 16 ==> final(f).out() == old(f).out().push(upper_hex(v)) && hexval(upper_hex(v)) == Some(v as u32)
{ unimplemented!() }
// FmtFlags (src/fmt_flags.rs): only "fit the screen" matters here (elided output is not meant to be read back)
#[verifier::external_body] pub struct FmtFlags { _p: u8 }
impl FmtFlags {
    pub uninterp spec fn fit(&self) -> bool;
    #[verifier::external_body] pub fn fitscreen(&self) -> (r: bool) ensures r == self.fit() { unimplemented!() }
}
// how many of the bits are covered by the first k groups
pub open spec fn gcnt(k: int, l: int) -> int { if 8 * k < l { 8 * k } else { l } }
// the printer's invariant: `out` = `before`, `|`, then characters that read back as bits [s0, q) of src
pub open spec fn pr_inv(out: Seq<char>, before: Seq<char>, src: Seq<u8>, s0: int, q: int) -> bool {
    let o = before.len() as int;
    &&& out.len() >= o + 1 && out.subrange(0, o) == before && out[o] == '|' && s0 <= q
    &&& bit_body(out, o + 1, out.len() as int)
    &&& lit_bits(out, o + 1, out.len() as int) == bits_of(src, s0, q)
}
proof fn lemma_pr_blank(out: Seq<char>, before: Seq<char>, src: Seq<u8>, s0: int, q: int)
    requires pr_inv(out, before, src, s0, q)
    ensures pr_inv(out.push(' '), before, src, s0, q)
{
    let o = before.len() as int;
    lemma_lit_push(out, o + 1, ' ');
    assert(char_bits(' ') =~= Seq::<bool>::empty());
    assert(lit_bits(out.push(' '), o + 1, out.len() as int + 1) =~= lit_bits(out, o + 1, out.len() as int));
    assert(out.push(' ').subrange(0, o) =~= out.subrange(0, o));
}
proof fn lemma_pr_nib(out: Seq<char>, before: Seq<char>, src: Seq<u8>, s0: int, q: int, c: char, v: u8)
    requires
        pr_inv(out, before, src, s0, q), hexval(c) == Some(v as u32),
        nib_bit(v as u32, 3) == bit_at(src, q), nib_bit(v as u32, 2) == bit_at(src, q + 1),
        nib_bit(v as u32, 1) == bit_at(src, q + 2), nib_bit(v as u32, 0) == bit_at(src, q + 3),
    ensures pr_inv(out.push(c), before, src, s0, q + 4)
{
    let o = before.len() as int;
    lemma_lit_push(out, o + 1, c);
    assert(char_bits(c) =~= Seq::new(4, |j: int| bit_at(src, q + j)));
    assert(bits_of(src, s0, q + 4) =~= bits_of(src, s0, q) + Seq::new(4, |j: int| bit_at(src, q + j)));
    assert(out.push(c).subrange(0, o) =~= out.subrange(0, o));
}
proof fn lemma_pr_bit(out: Seq<char>, before: Seq<char>, src: Seq<u8>, s0: int, q: int, c: char)
    requires pr_inv(out, before, src, s0, q), (c == 'x' && bit_at(src, q)) || (c == '.' && !bit_at(src, q))
    ensures pr_inv(out.push(c), before, src, s0, q + 1)
{
    let o = before.len() as int;
    lemma_lit_push(out, o + 1, c);
    assert(char_bits(c) =~= seq![bit_at(src, q)]);
    assert(bits_of(src, s0, q + 1) =~= bits_of(src, s0, q) + seq![bit_at(src, q)]);
    assert(out.push(c).subrange(0, o) =~= out.subrange(0, o));
}
//@use bitstr.fns "impl fmt::Debug for Cell"::fmt#bitstr

// `==` on bit-strings is equality of the bit sequences
impl vstd::std_specs::cmp::PartialEqSpecImpl for Bitstr {
    open spec fn obeys_eq_spec() -> bool { true }
    open spec fn eq_spec(&self, other: &Self) -> bool { self.view() == other.view() }
}

impl PartialEq for Bitstr {
//@use bitstr.fns "impl PartialEq for Bitstr"::eq
}


} // verus!
fn main() {}
