#![feature(allocator_api)]
#![allow(unused_imports, dead_code, unused_variables, unused_mut, unused_assignments, non_camel_case_types)]
use vstd::prelude::*;
use std::rc::Rc;
use std::ops::Range;
use std::cmp::Ordering;
use vstd::std_specs::cmp::PartialOrdSpec;
verus! {

global size_of usize == 8;

//@include preamble/xbitstr_opaque.rs
//@include preamble/state_types.rs
//@include spec/cell_specs.rs
//@include spec/machine.rs
//@include spec/state_specs.rs
//@include spec/arith_specs.rs
//@include spec/xmap_specs.rs
//@include spec/coll_specs.rs

#[verifier::external_body] fn verif_lit_xstr() -> Xstr { unimplemented!() }
impl Xerr {
    #[verifier::external_body] pub fn out_of_bounds(idx: usize, len: usize) -> Xerr { unimplemented!() }
    #[verifier::external_body] pub fn out_of_bounds_rel(ridx: isize, len: usize) -> Xerr { unimplemented!() }
    #[verifier::external_body] pub fn type_not_supported(val: Cell) -> Xerr { unimplemented!() }
    #[verifier::external_body] pub fn vec_stack_underflow() -> Xerr { unimplemented!() }
    #[verifier::external_body] pub fn map_stack_underflow() -> Xerr { unimplemented!() }
    #[verifier::external_body] pub fn map_missing_key() -> Xerr { unimplemented!() }
    #[verifier::external_body] pub fn unbalanced_map_builder() -> Xerr { unimplemented!() }
}
pub assume_specification [ <isize>::unsigned_abs ] (a: isize) -> (r: usize)
    ensures r == (if a < 0 { -(a as int) } else { a as int });

//@use cell.fns ::cell_type_error assumed
impl Cell {
//@use cell.fns Cell::value assumed
//@use cell.fns Cell::to_isize assumed
//@use cell.fns Cell::to_usize assumed
//@use cell.fns Cell::to_vec assumed
//@use cell.fns Cell::vec assumed
//@use coll.fns "impl PartialEq for Cell"::eq
//@use coll.fns "impl PartialOrd for Cell"::partial_cmp
//@use coll.fns "impl Ord for Cell"::cmp
//@use coll.fns "impl Ord for Cell"::cmp#strict
}
impl vstd::std_specs::convert::FromSpecImpl<usize> for Cell {
    open spec fn obeys_from_spec() -> bool { true }
    open spec fn from_spec(x: usize) -> Cell { Cell::Int(x as i128) }
}
impl From<usize> for Cell {
//@use cell.fns "impl From<usize> for Cell"::from
}
impl vstd::std_specs::convert::FromSpecImpl<Xvec> for Cell {
    open spec fn obeys_from_spec() -> bool { true }
    open spec fn from_spec(x: Xvec) -> Cell { Cell::Vector(x) }
}
impl From<Xvec> for Cell {
//@use cell.fns "impl From<Xvec> for Cell"::from
}

impl State {
//@use state.fns State::push_data assumed
//@use state.fns State::pop_data assumed
//@use state.fns State::top_data assumed
//@use state.fns State::pop_special assumed
//@use state.fns State::data_depth assumed
}

//@use coll.fns ::relative_index
//@use coll.fns ::slicing_index
//@use coll.fns ::vector_get
//@use coll.fns ::core_word_nth
//@use coll.fns ::core_word_push
//@use coll.fns ::core_word_get
//@use coll.fns ::core_word_insert
//@use coll.fns ::core_word_remove
//@use coll.fns ::core_word_length
//@use coll.fns ::vec_collect_till_ptr
//@use coll.fns ::vec_builder_end
//@use coll.fns ::map_collect_till_ptr
//@use coll.fns ::map_builder_end
//@use coll.fns ::core_word_collect

} // verus!
fn main() {}
