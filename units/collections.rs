#![feature(allocator_api)]
#![allow(unused_imports, dead_code, unused_variables, unused_mut, unused_assignments, non_camel_case_types)]
use vstd::prelude::*;
use std::rc::Rc;
use std::ops::Range;
use std::cmp::Ordering;
use vstd::std_specs::cmp::PartialOrdSpec;
verus! {

global size_of usize == 8;

//@include preamble/xbitstr_opaque.rs
//@include preamble/state_types.rs
//@include preamble/lex_opaque.rs
//@include spec/cell_specs.rs
//@include spec/machine.rs
//@include spec/state_specs.rs
//@include spec/arith_specs.rs
//@include spec/xmap_specs.rs
//@include spec/coll_specs.rs

#[verifier::external_body] fn verif_lit_xstr() -> Xstr { unimplemented!() }
impl Xerr {
    #[verifier::external_body] pub fn out_of_bounds(idx: usize, len: usize) -> Xerr { unimplemented!() }
    #[verifier::external_body] pub fn out_of_bounds_rel(ridx: isize, len: usize) -> Xerr { unimplemented!() }
    #[verifier::external_body] pub fn type_not_supported(val: Cell) -> Xerr { unimplemented!() }
    #[verifier::external_body] pub fn vec_stack_underflow() -> Xerr { unimplemented!() }
    #[verifier::external_body] pub fn map_stack_underflow() -> Xerr { unimplemented!() }
    #[verifier::external_body] pub fn map_missing_key() -> Xerr { unimplemented!() }
    #[verifier::external_body] pub fn unbalanced_map_builder() -> Xerr { unimplemented!() }
}
// ASSUMED std/rpds iterator facts behind I/J/K: nth_back(n) of a slice iterator is the n-th element from the end;
// iter().nth(i) of an rpds vector is its i-th element, of an rpds map its i-th entry in key order
#[verifier::external_body]
fn verif_loops_nth_back<'a>(v: &'a Vec<Loop>, from: usize, n: usize) -> (r: Option<&'a Loop>)
    requires from <= v@.len()
    ensures r is Some <==> n < v@.len() - from, r is Some ==> *r->0 == v@[v@.len() - 1 - n]
{ v[from..].iter().nth_back(n) }
pub uninterp spec fn xmap_nth(m: Xmap, i: int) -> Option<(Cell, Cell)>;
pub uninterp spec fn xmap_size(m: Xmap) -> usize;
impl Xmap { #[verifier::external_body] pub fn size(&self) -> (r: usize) ensures r == xmap_size(*self) { unimplemented!() } }
impl vstd::std_specs::convert::FromSpecImpl<i32> for Cell {
    open spec fn obeys_from_spec() -> bool { true }
    open spec fn from_spec(x: i32) -> Cell { Cell::Int(x as i128) }
}
impl From<i32> for Cell {
//@use cell.fns "impl From<i32> for Cell"::from
}
impl Xvec {
    #[verifier::external_body] pub fn verif_iter_nth(&self, i: usize) -> (r: Option<&Cell>)
        ensures r is Some <==> i < self@.len(), r is Some ==> *r->0 == self@[i as int] { unimplemented!() }
}
impl Xmap {
    #[verifier::external_body] pub fn verif_iter_nth(&self, i: usize) -> (r: Option<(&Cell, &Cell)>)
        ensures r is Some <==> xmap_nth(*self, i as int) is Some, r is Some ==> (*(r->0).0, *(r->0).1) == xmap_nth(*self, i as int)->0 { unimplemented!() }
}
//@include preamble/xvec_iter.rs
// ASSUMED std meaning of `iter().skip(a).take(n)` on an rpds vector: the elements [min(a,len), min(a+n,len)) in order
#[verifier::external_body]
fn verif_skip_take<'a>(v: &'a Xvec, a: usize, n: usize) -> (r: XvecIter<'a>)
    ensures ({ let lo = if a <= v@.len() { a as int } else { v@.len() as int };
               let hi = if a + n <= v@.len() { a + n } else { v@.len() as int };
               r.rem().len() == hi - lo && forall|i: int| 0 <= i < hi - lo ==> *(#[trigger] r.rem()[i]) == v@[lo + i] })
{ unimplemented!() }
// ASSUMED std meaning of the two `chars()` chains of slice_str: the number of characters; the characters
// [min(a,len), min(a+n,len)) collected into a String.  `Xstr::len` (the BYTE length) is some other number.
#[verifier::external_body] fn verif_chars_count(s: &Xstr) -> (r: usize) ensures r == xstr_chars(*s).len() { unimplemented!() }
#[verifier::external_body] fn verif_chars_skip_take(s: &Xstr, a: usize, n: usize) -> (r: String)
    ensures ({ let len = xstr_chars(*s).len() as int;
               let lo = if a <= len { a as int } else { len }; let hi = if a + n <= len { a + n } else { len };
               r@ == xstr_chars(*s).subrange(lo, hi) })
{ unimplemented!() }
// `Cell::Str(Xstr::from(x))` (src/cell.rs): ASSUMED one-liner over the arcstr conversion
impl From<String> for Cell { #[verifier::external_body] fn from(x: String) -> (r: Cell) ensures r is Str && xstr_chars(r->Str_0) == x@ { unimplemented!() } }
impl core::ops::Deref for Xstr { type Target = str; #[verifier::external_body] fn deref(&self) -> (r: &str) ensures r@ == xstr_chars(*self) { unimplemented!() } }
//@include preamble/cell_depth.rs
// the printer (fmt::Debug of a cell under its formatting tag): ASSUMED a function of the cell, always succeeds
pub uninterp spec fn fmt_chars(val: Cell) -> Seq<char>;
impl State {
    #[verifier::external_body] pub fn format_cell(&self, val: &Cell) -> (r: Xresult1<String>)
        ensures r is Ok && r->Ok_0@ == fmt_chars(*val) { unimplemented!() }
}
// what concat / join denote: strings and (nested) vectors are spliced - looked at THROUGH their tags -, anything else
// is printed; the separator goes between the elements of every level
spec fn piece(x: Cell, sep: Option<Xstr>) -> Seq<char>
    decreases cell_depth(x), 2nat, 0int
    via piece_dec
{
    match strip(x) {
        Cell::Vector(v2) => joined(v2, v2@.len() as int, sep),
        Cell::Str(s) => xstr_chars(s),
        _ => fmt_chars(x),
    }
}
spec fn joined(v: Xvec, n: int, sep: Option<Xstr>) -> Seq<char>
    decreases cell_depth(Cell::Vector(v)), 1nat, n
    via joined_dec
{
    if n <= 0 || n > v@.len() { Seq::empty() } else {
        joined(v, n - 1, sep) + piece(v@[n - 1], sep) + (if sep is Some && n < v@.len() { xstr_chars(sep->0) } else { Seq::<char>::empty() })
    }
}
#[via_fn] proof fn piece_dec(x: Cell, sep: Option<Xstr>) { axiom_depth_strip(x); }
#[via_fn] proof fn joined_dec(v: Xvec, n: int, sep: Option<Xstr>) { if 0 < n <= v@.len() { axiom_depth_elem(v, n - 1); } }

pub assume_specification [ <isize>::unsigned_abs ] (a: isize) -> (r: usize)
    ensures r == (if a < 0 { -(a as int) } else { a as int });

//@use cell.fns ::cell_type_error assumed
impl Cell {
//@use cell.fns Cell::value assumed
//@use cell.fns Cell::to_isize assumed
//@use cell.fns Cell::to_usize assumed
//@use cell.fns Cell::to_vec assumed
//@use cell.fns Cell::to_xstr assumed
//@use cell.fns Cell::vec assumed
//@use cell.fns Cell::to_map assumed
//@use cell.fns Cell::to_bool assumed
//@use cell.fns Cell::as_map assumed
//@use cell.fns Cell::tags assumed
//@use cell.fns Cell::with_tags assumed
//@use cell.fns Cell::insert_tag assumed
//@use cell.fns Cell::remove_tag assumed
//@use coll.fns "impl PartialEq for Cell"::eq
//@use coll.fns "impl PartialOrd for Cell"::partial_cmp
//@use coll.fns "impl Ord for Cell"::cmp
//@use coll.fns "impl Ord for Cell"::cmp#strict
}
impl vstd::std_specs::convert::FromSpecImpl<usize> for Cell {
    open spec fn obeys_from_spec() -> bool { true }
    open spec fn from_spec(x: usize) -> Cell { Cell::Int(x as i128) }
}
impl From<usize> for Cell {
//@use cell.fns "impl From<usize> for Cell"::from
}
impl vstd::std_specs::convert::FromSpecImpl<bool> for Cell {
    open spec fn obeys_from_spec() -> bool { true }
    open spec fn from_spec(x: bool) -> Cell { Cell::Flag(x) }
}
impl From<bool> for Cell {
//@use cell.fns "impl From<bool> for Cell"::from
}
impl vstd::std_specs::convert::FromSpecImpl<isize> for Cell {
    open spec fn obeys_from_spec() -> bool { true }
    open spec fn from_spec(x: isize) -> Cell { Cell::Int(x as i128) }
}
impl From<isize> for Cell {
//@use cell.fns "impl From<isize> for Cell"::from
}
impl vstd::std_specs::convert::FromSpecImpl<Xvec> for Cell {
    open spec fn obeys_from_spec() -> bool { true }
    open spec fn from_spec(x: Xvec) -> Cell { Cell::Vector(x) }
}
impl From<Xvec> for Cell {
//@use cell.fns "impl From<Xvec> for Cell"::from
}

impl State {
//@use state.fns State::push_data assumed
//@use state.fns State::pop_data assumed
//@use state.fns State::top_data assumed
//@use state.fns State::pop_special assumed
//@use state.fns State::data_depth assumed
}

//@use coll.fns ::relative_index
//@use coll.fns ::slicing_index
//@use coll.fns ::vector_get
//@use coll.fns ::core_word_nth
//@use coll.fns ::core_word_push
//@use coll.fns ::core_word_get
//@use coll.fns ::core_word_insert
//@use coll.fns ::core_word_remove
//@use coll.fns ::core_word_length
//@use coll.fns ::vec_collect_till_ptr
//@use coll.fns ::vec_builder_end
//@use coll.fns ::map_collect_till_ptr
//@use coll.fns ::map_builder_end
//@use coll.fns ::core_word_collect
//@use coll.fns ::counter_value
//@use coll.fns ::core_word_tags
//@use coll.fns ::core_word_with_tags
//@use coll.fns ::core_word_insert_tag
//@use coll.fns ::core_word_remove_tag
//@use coll.fns ::core_word_get_tag
//@use coll.fns ::core_word_equal
//@use coll.fns ::core_word_assert_eq
//@use coll.fns ::core_word_is_nil
//@use coll.fns ::slice_str
//@use coll.fns ::slice_vec
//@use coll.fns ::core_word_slice
//@use coll.fns ::core_word_unbox
//@use coll.fns ::collect_tag_map
//@use coll.fns ::foreach_init
//@use coll.fns ::join_str_vec
//@use coll.fns ::core_word_concat
//@use coll.fns ::core_word_join
//@use coll.fns ::core_word_counter_i
//@use coll.fns ::core_word_counter_j
//@use coll.fns ::core_word_counter_k

// bindings of the core word table (Rword)
//@use corewords.fns State::load_core#w_insert
//@use corewords.fns State::load_core#w_remove
//@use corewords.fns State::load_core#w_I
//@use corewords.fns State::load_core#w_J
//@use corewords.fns State::load_core#w_K
//@use corewords.fns State::load_core#w_length
//@use corewords.fns State::load_core#w_nth
//@use corewords.fns State::load_core#w_get
//@use corewords.fns State::load_core#w_push
//@use corewords.fns State::load_core#w_collect
//@use corewords.fns State::load_core#w_tags
//@use corewords.fns State::load_core#w_with_tags
//@use corewords.fns State::load_core#w_insert_tag
//@use corewords.fns State::load_core#w_remove_tag
//@use corewords.fns State::load_core#w_get_tag

//@use corewords.fns State::load_core#w_equal_q

//@use corewords.fns State::load_core#w_nil_q

//@use corewords.fns State::load_core#w_assert_eq

//@use corewords.fns State::load_core#w_concat

//@use corewords.fns State::load_core#w_join

//@use corewords.fns State::load_core#w_unbox

//@use corewords.fns State::load_core#w_slice
//@use corewords.fns State::load_core#w_println
//@use corewords.fns State::load_core#w_print
//@use corewords.fns State::load_core#w_newline
//@use corewords.fns State::load_core#w_str_tonumber
//@use corewords.fns State::load_core#w_error
//@use corewords.fns State::load_core#w_sort
//@use corewords.fns State::load_core#w_reverse
//@use corewords.fns State::load_core#w_exit

//@use coll.fns ::let_map_begin
//@use coll.fns ::let_map_end
//@use coll.fns ::let_map_lookup
//@use coll.fns ::let_vec_len
//@use coll.fns ::let_vec_any_len
//@use coll.fns ::let_vec_at
// ASSUMED std / rpds meaning of `v.iter().skip(n).cloned().collect()`: the elements from index n on, none past the end
#[verifier::external_body] fn verif_vec_skip(v: &Xvec, n: usize) -> (r: Xvec)
    ensures r@ == (if n <= v@.len() { v@.skip(n as int) } else { Seq::<Cell>::empty() })
{ unimplemented!() }
//@use coll.fns ::let_vec_rest
// ---- str>number (D26)
impl vstd::std_specs::convert::FromSpecImpl<i128> for Cell {
    open spec fn obeys_from_spec() -> bool { true }
    open spec fn from_spec(x: i128) -> Cell { Cell::Int(x) }
}
impl From<i128> for Cell {
//@use cell.fns "impl From<i128> for Cell"::from
}
// FmtFlags (src/fmt_flags.rs, verified in unit cell): its base is the low byte of the raw value
#[verifier::external_body] pub struct FmtFlags { _p: u8 }
impl FmtFlags {
    pub uninterp spec fn base_s(&self) -> usize;
    pub uninterp spec fn prefix_s(&self) -> bool;
    pub uninterp spec fn upcase_s(&self) -> bool;
    pub uninterp spec fn fit(&self) -> bool;
    #[verifier::external_body] pub fn fitscreen(&self) -> (r: bool) ensures r == self.fit() { unimplemented!() }
    #[verifier::external_body] pub fn base(&self) -> (r: usize) ensures r <= 0xff, r == self.base_s() { unimplemented!() }
    #[verifier::external_body] pub fn set_base(self, n: usize) -> FmtFlags { unimplemented!() }
    #[verifier::external_body] pub fn show_prefix(&self) -> (r: bool) ensures r == self.prefix_s() { unimplemented!() }
    #[verifier::external_body] pub fn set_show_prefix(self, t: bool) -> FmtFlags { unimplemented!() }
    #[verifier::external_body] pub fn show_tags(&self) -> bool { unimplemented!() }
    #[verifier::external_body] pub fn set_show_tags(self, t: bool) -> FmtFlags { unimplemented!() }
    #[verifier::external_body] pub fn upcase(&self) -> (r: bool) ensures r == self.upcase_s() { unimplemented!() }
    #[verifier::external_body] pub fn set_upcase(&self, t: bool) -> FmtFlags { unimplemented!() }
    #[verifier::external_body] pub fn build(self) -> Cell { unimplemented!() }
}
#[verifier::external_body] fn verif_fmt_tag_name() -> Cell { unimplemented!() }
impl Default for FmtFlags { #[verifier::external_body] fn default() -> FmtFlags { unimplemented!() } }
impl State {
    #[verifier::external_body] pub fn parse_fmt_flags(&self, val: &Cell) -> Option<FmtFlags> { unimplemented!() }
}
// ASSUMED std / arcstr: `find(char)`, `str::parse::<f64>`, `i128::from_str_radix` (panics for a radix outside 2..=36), `substr(..)`
#[verifier::external_body] fn verif_str_has_dot(s: &Xstr) -> bool { unimplemented!() }
#[verifier::external_body] fn verif_str_parse_real(s: &Xstr) -> Result<f64, ()> { unimplemented!() }
#[verifier::external_body] fn verif_str_parse_int(s: &Xstr, radix: u32) -> Result<i128, ()>
    requires 2 <= radix <= 36
{ unimplemented!() }
#[verifier::external_body] fn verif_substr_all(s: &Xstr) -> Xsubstr { unimplemented!() }
//@use coll.fns ::core_word_str_to_num
//@use coll.fns ::update_fmt_flags
//@use coll.fns ::update_fmt_base
//@use coll.fns ::with_fmt_prefix
//@use coll.fns ::update_fmt_prefix
//@use coll.fns ::update_fmt_tags
//@use coll.fns ::update_fmt_upcase
//@use coll.fns ::core_word_error
// printing changes the interception buffer only: whatever the undo log relates stays related
proof fn lemma_rev_stdout(a: State, mid: State, fin: State, n: nat)
    requires rev_w(&a, &mid, n), rev_ext(&a, &mid, n), fin == (State { stdout: fin.stdout, ..mid })
    ensures rev_w(&a, &fin, n), rev_ext(&a, &fin, n)
{
    assert(fin.mach() == mid.mach() && fin.log() == mid.log() && fin.bases() == mid.bases() && fin.rec() == mid.rec());
    assert forall|b: State, k: nat| #[trigger] rev_w(&b, &a, k) implies rev_w(&b, &fin, k + n) by {
        assert(rev_w(&b, &mid, k + n));
    }
}
// the process's stdout (src/file.rs): ASSUMED to return some result
#[verifier::external_body] fn verif_write_to_stdout(msg: &str) -> Xresult { unimplemented!() }
impl State {
//@use coll.fns State::print
}
//@use coll.fns ::core_word_print
//@use coll.fns ::core_word_newline
//@use coll.fns ::core_word_println
//@use coll.fns ::core_word_exit
// ---- reverse / sort: ASSUMED std / rpds meaning of the single expressions they are made of
#[verifier::external_body] fn verif_vec_reversed(v: &Xvec) -> (r: Xvec) ensures r@ == v@.reverse() { unimplemented!() }
#[verifier::external_body] fn verif_vec_to_std(v: &Xvec) -> (r: Vec<Cell>) ensures r@ == v@ { unimplemented!() }
#[verifier::external_body] fn verif_vec_from_std(v: Vec<Cell>) -> (r: Xvec) ensures r@ == v@ { unimplemented!() }
// `a` sorted ascending is `b`: same multiset, adjacent elements in order under `Ord for Cell` (uninterpreted: see D17 for what that order is)
pub uninterp spec fn cell_le(a: Cell, b: Cell) -> bool;
spec fn sorted_perm(a: Seq<Cell>, b: Seq<Cell>) -> bool {
    a.to_multiset() == b.to_multiset() && forall|i: int, j: int| 0 <= i < j < b.len() ==> cell_le(b[i], b[j])
}
#[verifier::external_body] fn verif_slice_sort(v: &mut Vec<Cell>) ensures sorted_perm(old(v)@, final(v)@) { unimplemented!() }
//@use coll.fns ::core_word_reverse
//@use coll.fns ::core_word_sort
// ---- the printer of vectors, maps and integers (arms of fmt::Debug for Cell)
//@include preamble/fmt_sink.rs
// rpds RedBlackTreeMap::iter (ASSUMED): the entries in key order
#[verifier::external_body] pub struct XmapIter<'a> { _p: &'a u8 }
impl<'a> XmapIter<'a> { pub uninterp spec fn rem(&self) -> Seq<(&'a Cell, &'a Cell)>; }
impl<'a> vstd::std_specs::iter::IteratorSpecImpl for XmapIter<'a> {
    open spec fn obeys_prophetic_iter_laws(&self) -> bool { true }
    open spec fn remaining(&self) -> Seq<(&'a Cell, &'a Cell)> { self.rem() }
    open spec fn will_return_none(&self) -> bool { true }
    open spec fn decrease(&self) -> Option<nat> { Some(self.rem().len()) }
    open spec fn peek(&self, index: int) -> Option<(&'a Cell, &'a Cell)> {
        if 0 <= index < self.rem().len() { Some(self.rem()[index]) } else { None }
    }
}
impl<'a> Iterator for XmapIter<'a> {
    type Item = (&'a Cell, &'a Cell);
    #[verifier::external_body] fn next(&mut self) -> Option<(&'a Cell, &'a Cell)> { unimplemented!() }
}
impl Xmap {
    #[verifier::external_body] pub fn iter(&self) -> (r: XmapIter<'_>)
        ensures r.rem().len() == xmap_size(*self),
            forall|i: int| 0 <= i < xmap_size(*self) ==> xmap_nth(*self, i) == Some((*(#[trigger] r.rem()[i]).0, *r.rem()[i].1)) { unimplemented!() }
}
// what the printer writes for a cell under given flags (the recursive call of fmt::Debug for Cell; ASSUMED a function of both)
pub uninterp spec fn cell_text(c: Cell, fl: Option<usize>) -> Seq<char>;
#[verifier::external_body] fn verif_cell_fmt(x: &Cell, f: &mut Formatter) -> (r: FmtResult)
    ensures final(f).wd() == old(f).wd(), r is Ok ==> final(f).out() == old(f).out() + cell_text(*x, old(f).wd())
{ unimplemented!() }
// std integer formatting (`{}`, `{:b}`, `{:#x}` ..): ASSUMED a function of the number, the base, the prefix and the case
pub uninterp spec fn int_text(n: i128, base: int, prefix: bool, upcase: bool) -> Seq<char>;
#[verifier::external_body] fn verif_write_int(f: &mut Formatter, n: &i128, base: u32, prefix: bool, upcase: bool) -> (r: FmtResult)
    ensures r is Ok ==> final(f).out() == old(f).out() + int_text(*n, base as int, prefix, upcase)
{ unimplemented!() }
pub open spec fn lit2(a: char, b: char) -> Seq<char> { seq![a, b] }
pub open spec fn vec_text(v: Seq<Cell>, n: int, fl: Option<usize>) -> Seq<char>
    decreases n
{
    if n <= 0 { Seq::empty() } else { vec_text(v, n - 1, fl) + cell_text(v[n - 1], fl) + seq![' '] }
}
pub open spec fn map_text(m: Xmap, n: int, fl: Option<usize>) -> Seq<char>
    decreases n
{
    if n <= 0 { Seq::empty() } else { let e = xmap_nth(m, n - 1).unwrap(); map_text(m, n - 1, fl) + cell_text(e.1, fl) + seq![' '] + cell_text(e.0, fl) + seq![' '] }
}
pub open spec fn lit3(a: char, b: char, c: char) -> Seq<char> { seq![a, b, c] }
spec fn wt_value(rc: &std::rc::Rc<WithTag>) -> Cell { rc.value }
pub open spec fn tags_text(m: Xmap, n: int, fl: Option<usize>) -> Seq<char>
    decreases n
{
    if n <= 0 { Seq::empty() } else { let e = xmap_nth(m, n - 1).unwrap(); tags_text(m, n - 1, fl) + seq![' '] + cell_text(e.1, fl) + seq![' '] + cell_text(e.0, fl) }
}
//@use coll.fns "impl fmt::Debug for Cell"::fmt#vector
//@use coll.fns "impl fmt::Debug for Cell"::fmt#with_tag
//@use coll.fns "impl fmt::Debug for Cell"::fmt#show_tags
//@use coll.fns "impl fmt::Debug for Cell"::fmt#map
//@use coll.fns "impl fmt::Debug for Cell"::fmt#int

// small State getters a changed body may start to use (assumed renderings of verified contracts; unit state proves them)
impl State {
//@use state.fns State::ip assumed
//@use state.fns State::is_recording assumed
//@use state.fns State::is_running assumed
//@use state.fns State::get_var assumed
//@use state.fns State::code_origin assumed
}

} // verus!
fn main() {}
