#![feature(allocator_api)]
#![allow(unused_imports, dead_code, unused_variables, unused_mut, unused_assignments, non_camel_case_types)]
use vstd::prelude::*;
use std::rc::Rc;
use std::ops::Range;
use vstd::std_specs::cmp::PartialOrdSpec;
verus! {

global size_of usize == 8;

//@include preamble/xbitstr_opaque.rs
//@include preamble/state_types.rs
//@include spec/cell_specs.rs
//@include spec/xmap_specs.rs
#[verifier::external_body] pub struct CharIdx { _p: u8 }
//@include preamble/lex_model.rs
//@include spec/lex_specs.rs

// R3c: string constants (message text is dropped)
#[verifier::external_body] fn verif_lit_xstr() -> Xstr { unimplemented!() }

pub type Xcell = Cell;
//@type src/lex.rs enum Tok
//@type src/lex.rs struct Lex
//@type src/lex.rs const BIT_CLR_CHAR
//@type src/lex.rs const BIT_SET_CHAR

impl Lex {
    spec fn txt(&self) -> Seq<char> { xtext(self.buf) }
    spec fn ok(&self) -> bool {
        &&& is_boundary(self.txt(), self.pos as int) && is_boundary(self.txt(), self.start_pos as int)
        &&& self.start_pos <= self.pos <= blen(self.txt())
        &&& blen(self.txt()) <= isize::MAX
    }
    spec fn cidx(&self) -> int { choose|k: int| 0 <= k <= self.txt().len() && off(self.txt(), k) == self.pos }
}
#[verifier::external_body]
fn verif_char_at(b: &Xstr, pos: usize) -> (r: Option<char>)
    requires is_boundary(xtext(*b), pos as int), pos <= blen(xtext(*b))
    ensures forall|k: int| 0 <= k <= xtext(*b).len() && off(xtext(*b), k) == pos ==> r == (if k < xtext(*b).len() { Some(xtext(*b)[k]) } else { None::<char> })
{ unimplemented!() }

// ---- ASSUMED std / dependency pieces the lexer uses; none of them moves the cursor
pub assume_specification [ char::is_ascii_whitespace ] (c: &char) -> bool;
pub assume_specification [ char::is_ascii_digit ] (c: &char) -> bool;
pub assume_specification [ char::to_digit ] (c: char, radix: u32) -> (r: Option<u32>)
    ensures r is Some ==> r->0 < radix;
// literal conversions (std parse / from_str_radix / arcstr From<&String>): values are C16's second half, not decided here
#[verifier::external_body] fn verif_xstr_from_string(s: &String) -> Xstr { unimplemented!() }
#[verifier::external_body] fn verif_parse_real(s: &String) -> Result<f64, ()> { unimplemented!() }
#[verifier::external_body] fn verif_parse_int(s: &String, radix: u32) -> Result<i128, ()> { unimplemented!() }
#[verifier::external_body] fn verif_substr_is(s: &Xsubstr, lit: &str) -> bool { unimplemented!() }
impl Xstr {
    // ArcStr::substr(a..): to the end of the text
    #[verifier::external_body]
    pub fn substr_from(&self, a: usize) -> (t: Xsubstr)
        requires a <= blen(xtext(*self)), is_boundary(xtext(*self), a as int)
        ensures sub_parent(t) == *self, sub_lo(t) == a, sub_hi(t) == blen(xtext(*self))
    { unimplemented!() }
}
// the bit-literal builder (verified in unit bitstr: append_bit requires a bit, finish packs them)
#[verifier::external_body] pub struct BitvecBuilder { _p: u8 }
impl BitvecBuilder {
    #[verifier::external_body] pub fn default() -> BitvecBuilder { unimplemented!() }
    #[verifier::external_body] pub fn append_bit(&mut self, val: u8) requires val <= 1 { unimplemented!() }
    #[verifier::external_body] pub fn finish(self) -> Xbitstr { unimplemented!() }
}
impl From<Xbitstr> for Cell { #[verifier::external_body] fn from(x: Xbitstr) -> (r: Cell) { unimplemented!() } }

impl Lex {
//@use lex.fns Lex::peek_char assumed
//@use lex.fns Lex::take_char assumed
//@use lex.fns Lex::new
//@use lex.fns Lex::next
//@use lex.fns Lex::next_nonws
}

} // verus!
fn main() {}
