#![feature(allocator_api)]
#![allow(unused_imports, dead_code, unused_variables, unused_mut, unused_assignments, non_camel_case_types)]
use vstd::prelude::*;
use std::rc::Rc;
use std::ops::Range;
use vstd::std_specs::cmp::PartialOrdSpec;
verus! {

global size_of usize == 8;

//@include preamble/xbitstr_opaque.rs
//@include preamble/state_types.rs
//@include spec/cell_specs.rs
//@include spec/xmap_specs.rs
#[verifier::external_body] pub struct CharIdx { _p: u8 }
//@include preamble/lex_model.rs
//@include spec/lex_specs.rs
//@include spec/lit_specs.rs

// R3c: string constants (message text is dropped)
#[verifier::external_body] fn verif_lit_xstr() -> Xstr { unimplemented!() }

pub type Xcell = Cell;
//@type src/lex.rs enum Tok
//@type src/lex.rs struct Lex
//@type src/lex.rs const BIT_CLR_CHAR
//@type src/lex.rs const BIT_SET_CHAR

impl Lex {
    spec fn txt(&self) -> Seq<char> { xtext(self.buf) }
    spec fn ok(&self) -> bool {
        &&& is_boundary(self.txt(), self.pos as int) && is_boundary(self.txt(), self.start_pos as int)
        &&& self.start_pos <= self.pos <= blen(self.txt())
        &&& blen(self.txt()) <= isize::MAX
    }
    spec fn cidx(&self) -> int { choose|k: int| 0 <= k <= self.txt().len() && off(self.txt(), k) == self.pos }
}
#[verifier::external_body]
fn verif_char_at(b: &Xstr, pos: usize) -> (r: Option<char>)
    requires is_boundary(xtext(*b), pos as int), pos <= blen(xtext(*b))
    ensures forall|k: int| 0 <= k <= xtext(*b).len() && off(xtext(*b), k) == pos ==> r == (if k < xtext(*b).len() { Some(xtext(*b)[k]) } else { None::<char> })
{ unimplemented!() }

// ---- ASSUMED std / dependency pieces the lexer uses; none of them moves the cursor
pub assume_specification [ char::is_ascii_whitespace ] (c: &char) -> (r: bool)
    ensures r == is_ws(*c);
pub assume_specification [ char::is_ascii_digit ] (c: &char) -> (r: bool)
    ensures r == is_dec_digit(*c);
pub assume_specification [ char::to_digit ] (c: char, radix: u32) -> (r: Option<u32>)
    ensures r is Some ==> r->0 < radix, radix == 16 ==> r == hexval(c);
// literal conversions (arcstr From<&String>, std parse / from_str_radix): ASSUMED to compute the stated spec functions;
// from_str_radix panics on a radix outside 2..=36 (an obligation at the call)
#[verifier::external_body] fn verif_xstr_from_string(s: &String) -> (r: Xstr)
    ensures xtext(r) == s@
{ unimplemented!() }
#[verifier::external_body] fn verif_parse_real(s: &String) -> (r: Result<f64, ()>)
    ensures r is Ok ==> real_lit_val(s@) == Some(r->Ok_0), r is Err ==> real_lit_val(s@) is None
{ unimplemented!() }
#[verifier::external_body] fn verif_parse_int(s: &String, radix: u32) -> (r: Result<i128, ()>)
    requires 2 <= radix <= 36
    ensures r is Ok ==> int_lit_val(s@, radix) == Some(r->Ok_0 as int), r is Err ==> int_lit_val(s@, radix) is None
{ unimplemented!() }
#[verifier::external_body] fn verif_substr_is(s: &Xsubstr, lit: &str) -> bool { unimplemented!() }
impl Xstr {
    // ArcStr::substr(a..): to the end of the text
    #[verifier::external_body]
    pub fn substr_from(&self, a: usize) -> (t: Xsubstr)
        requires a <= blen(xtext(*self)), is_boundary(xtext(*self), a as int)
        ensures sub_parent(t) == *self, sub_lo(t) == a, sub_hi(t) == blen(xtext(*self))
    { unimplemented!() }
}
// the bit-literal builder (verified in unit bitstr with these postconditions: append_bit pushes one bit, finish packs
// them; its length preconditions - fewer than 2^64 - 8 bits - are NOT carried over: a literal that long needs a source
// text of 2^61 bytes)
pub uninterp spec fn xbits(b: Xbitstr) -> Seq<bool>;
#[verifier::external_body] pub struct BitvecBuilder { _p: u8 }
impl BitvecBuilder {
    pub uninterp spec fn bits(&self) -> Seq<bool>;
    #[verifier::external_body] pub fn default() -> (r: BitvecBuilder) ensures r.bits() == Seq::<bool>::empty() { unimplemented!() }
    #[verifier::external_body] pub fn append_bit(&mut self, val: u8) requires val <= 1 ensures final(self).bits() == old(self).bits().push(val == 1) { unimplemented!() }
    #[verifier::external_body] pub fn finish(self) -> (r: Xbitstr) ensures xbits(r) == self.bits() { unimplemented!() }
}
impl From<Xbitstr> for Cell { #[verifier::external_body] fn from(x: Xbitstr) -> (r: Cell) ensures r == Cell::Bitstr(x) { unimplemented!() } }

// what a token denotes (C16, second half): s is the source text, the token is its characters [k0, k1)
pub open spec fn lit_ok(s: Seq<char>, k0: int, k1: int, t: Tok) -> bool {
    match t {
        Tok::Literal(c) =>
            if s[k0] == '|' {
                k0 + 2 <= k1 && s[k1 - 1] == '|' && bit_body(s, k0 + 1, k1 - 1)
                && c is Bitstr && xbits(c->Bitstr_0) == lit_bits(s, k0 + 1, k1 - 1)
            } else if is_open_quote(s[k0]) {
                k0 + 2 <= k1 && is_close_quote(s[k1 - 1]) && str_body(s, k0 + 1, k1 - 1)
                && c is Str && xtext(c->Str_0) == str_dec(s, k0 + 1, k1 - 1)
            } else {
                num_start(s, k0) && (if num_is_real(s, k0, k1) {
                    !num_has_prefix(s, k0) && c is Real && real_lit_val(num_digits(s, k0, k1)) == Some(c->Real_0)
                } else {
                    c is Int && int_lit_val(num_digits(s, k0, k1), num_radix(s, k0)) == Some(c->Int_0 as int)
                })
            },
        Tok::Word(_) => k0 < k1 && s[k0] != '|' && !is_open_quote(s[k0]) && !num_start(s, k0),
        _ => true,
    }
}
// what the number scanner knows before it walks the rest of the token
pub open spec fn num_facts(s: Seq<char>, k0: int, kb: int, sg: Seq<char>, num_prefix: Option<char>, radix: Option<u32>) -> bool {
    &&& (num_prefix is Some) == num_start(s, k0)
    &&& s[k0] != '|' && !is_open_quote(s[k0])
    &&& num_prefix is Some ==> {
        &&& num_prefix->0 == s[num_first(s, k0)]
        &&& kb == num_body(s, k0)
        &&& sg == sign_seq(s, k0)
        &&& radix == (if num_has_prefix(s, k0) { Some(num_radix(s, k0)) } else { None::<u32> })
    }
}
// "... or are rejected": a number token is refused only when it has no value
pub open spec fn lit_err(s: Seq<char>, k0: int, k1: int) -> bool {
    s[k0] != '|' && !is_open_quote(s[k0]) && !is_ws(s[k0]) && num_start(s, k0) ==>
        (if num_is_real(s, k0, k1) { num_has_prefix(s, k0) || real_lit_val(num_digits(s, k0, k1)) is None }
         else { int_lit_val(num_digits(s, k0, k1), num_radix(s, k0)) is None })
}

// C16, last clause, for bit-strings: what the printer writes (`printed_bits`, the postcondition of the `Cell::Bitstr` arm of
// `fmt::Debug for Cell`, verified in unit bitstr) is read back by `Lex::next` (`lit_ok`) as ONE literal token that ends
// with the printed text and denotes exactly the printed bits.  Lemma over the two contracts.
proof fn lemma_print_read_bits(s: Seq<char>, out: Seq<char>, before: Seq<char>, bits: Seq<bool>, k1: int, c: Cell)
    requires
        printed_bits(out, before, bits),
        s.len() >= out.len(), s.subrange(0, out.len() as int) == out,
        before.len() < k1 <= s.len(),
        lit_ok(s, before.len() as int, k1, Tok::Literal(c)),
    ensures
        k1 == out.len(), c is Bitstr, xbits(c->Bitstr_0) == bits,
{
    let o = before.len() as int;
    let n = out.len() as int;
    assert forall|k: int| 0 <= k < n implies s[k] == out[k] by { assert(s.subrange(0, n)[k] == s[k]); }
    assert(s[o] == '|');
    assert(hexval('|') is None && !is_ws('|'));
    if k1 - 1 < n - 1 {
        assert(hexval(out[k1 - 1]) is Some || is_ws(out[k1 - 1]) || out[k1 - 1] == '.' || out[k1 - 1] == 'x');
        assert(false);
    }
    if k1 - 1 > n - 1 {
        assert(hexval(s[n - 1]) is Some || is_ws(s[n - 1]) || s[n - 1] == '.' || s[n - 1] == 'x');
        assert(false);
    }
    lemma_lit_bits_ext(s, out, o + 1, n - 1);
}

impl Lex {
//@use lex.fns Lex::peek_char assumed
//@use lex.fns Lex::take_char assumed
//@use lex.fns Lex::new
//@use lex.fns Lex::next
//@use lex.fns Lex::next_nonws
}

} // verus!
fn main() {}
