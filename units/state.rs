#![feature(allocator_api)]
#![allow(unused_imports, dead_code, unused_variables, unused_mut, unused_assignments, non_camel_case_types)]
use vstd::prelude::*;
use std::rc::Rc;
use std::ops::Range;
use vstd::std_specs::cmp::PartialOrdSpec;
verus! {

//@include preamble/state_types.rs
//@include spec/machine.rs
//@include spec/state_specs.rs

impl State {
//@use state.fns State::ip
//@use state.fns State::is_recording
//@use state.fns State::add_reverse_step
//@use state.fns State::set_ip
//@use state.fns State::next_ip
//@use state.fns State::check_stack_limit
//@use state.fns State::push_data
//@use state.fns State::pop_data
//@use state.fns State::data_depth
//@use state.fns State::top_data
//@use state.fns State::drop_data
//@use state.fns State::dup_data
//@use state.fns State::swap_data
//@use state.fns State::rot_data
//@use state.fns State::over_data
//@use state.fns State::push_return
//@use state.fns State::pop_return
//@use state.fns State::push_loop
//@use state.fns State::pop_loop
//@use state.fns State::push_special
//@use state.fns State::pop_special
//@use state.fns State::top_frame
//@use state.fns State::loop_next
//@use state.fns State::cell_ref_for_mode
//@use state.fns State::cell_ref
//@use state.fns State::get_var
//@use state.fns State::swap_cell_ref
//@use state.fns State::set_var
//@use state.fns State::check_heap_limit
//@use state.fns State::alloc_heap
//@use state.fns State::check_calc_limit_enabled
//@use state.fns State::set_stack_limit
//@use state.fns State::set_heap_limit
//@use state.fns State::set_insn_limit
//@use state.fns State::insn_meter_increase
//@use state.fns State::code_origin
//@use state.fns State::is_running
//@use state.fns State::reverse_changes
}

} // verus!
fn main() {}
