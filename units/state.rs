#![feature(allocator_api)]
#![allow(unused_imports, dead_code, unused_variables, unused_mut, unused_assignments, non_camel_case_types)]
use vstd::prelude::*;
use std::rc::Rc;
use std::ops::Range;
use vstd::std_specs::cmp::PartialOrdSpec;
verus! {

global size_of usize == 8;

//@include preamble/xbitstr_opaque.rs
//@include preamble/state_types.rs
//@include preamble/lex_opaque.rs
//@include spec/cell_specs.rs
//@include spec/xmap_specs.rs
//@include spec/machine.rs
//@include spec/state_specs.rs

impl State {
//@use state.fns State::ip
//@use state.fns State::is_recording
//@use state.fns State::add_reverse_step
//@use state.fns State::set_ip
//@use state.fns State::next_ip
//@use state.fns State::check_stack_limit
//@use state.fns State::push_data
//@use state.fns State::pop_data
//@use state.fns State::data_depth
//@use state.fns State::top_data
//@use state.fns State::drop_data
//@use state.fns State::dup_data
//@use state.fns State::swap_data
//@use state.fns State::rot_data
//@use state.fns State::over_data
//@use state.fns State::push_return
//@use state.fns State::pop_return
//@use state.fns State::push_loop
//@use state.fns State::pop_loop
//@use state.fns State::push_special
//@use state.fns State::pop_special
//@use state.fns State::top_frame
//@use state.fns State::loop_next
//@use state.fns State::cell_ref_for_mode
//@use state.fns State::cell_ref
//@use state.fns State::get_var
//@use state.fns State::swap_cell_ref
//@use state.fns State::set_var
//@use state.fns State::update_var
//@use state.fns State::check_heap_limit
//@use state.fns State::alloc_heap
//@use state.fns State::check_calc_limit_enabled
//@use state.fns State::set_stack_limit
//@use state.fns State::set_heap_limit
//@use state.fns State::set_insn_limit
//@use state.fns State::insn_meter_increase
//@use state.fns State::code_origin
//@use state.fns State::is_running
//@use state.fns State::clear_last_error
//@use state.fns State::location_from_current_ip
//@use state.fns State::set_runtime_err_location
//@use state.fns State::next
//@use state.fns State::run#loop
//@use state.fns State::run#strict
//@use state.fns State::reverse_changes
//@use state.fns State::dict_entry
//@use state.fns State::load_value_opcode
//@use state.fns State::backpatch
//@use state.fns State::fetch_and_run
//@use state.fns State::rnext
}

// R6 (rnext): the non-capturing closure `|xs| xs.reverse_log.as_mut().and_then(|log| log.pop())` as a named
// helper with the literal meaning of that line: pop the last entry of the log, if recording and non-empty
#[verifier::external_body]
fn verif_pop_log(xs: &mut State) -> (r: Option<ReverseStep>)
    ensures
        *final(xs) == (State { reverse_log: final(xs).reverse_log, ..*old(xs) }),
        final(xs).rec() == old(xs).rec(),
        old(xs).rec() && old(xs).log().len() > 0 ==> r == Some(old(xs).log().last()) && final(xs).log() == old(xs).log().drop_last(),
        !(old(xs).rec() && old(xs).log().len() > 0) ==> r is None && final(xs).log() == old(xs).log(),
{ unimplemented!() }

// C02, the closing lemma over the contracts of fetch_and_run and rnext: one forward step followed by
// one backward step restores the machine state and the log exactly (with recording on and a history
// of completed instructions behind it).  By induction k backward steps undo k forward steps.
fn lemma_step_then_rnext(xs: &mut State)
    requires
        old(xs).inv(), old(xs).rec(), log_wf(old(xs).log()),
        old(xs).ctx.ip < old(xs).code@.len(), old(xs).code@.len() <= 0x4000_0000,
    ensures true
{
    let ghost a: State = *xs;
    let r = xs.fetch_and_run();
    if r.is_ok() {
        let ghost s: State = *xs;
        proof {
            let n = choose|n: nat| insn_rev(&a, &s, n);
            assert(insn_rev(&a, &s, n) && log_wf(a.log()));
            let p = prev_insn(&s);
            assert(has_prev_insn(&s)) by { let w = (a, n); assert(insn_rev(&w.0, &s, w.1) && log_wf(w.0.log())); }
            lemma_prev_unique(a, n, p.0, p.1, s);
        }
        let r2 = xs.rnext();
        assert(r2 is Ok);
        assert(xs.mach() == a.mach());
        assert(xs.log() == a.log());
    }
}

// R4: a native word called through its function pointer.  ASSUMED native-word contract: a native
// word keeps the stack bases and the ip, and whatever it changes is recorded so that it can be undone.
#[verifier::external_body]
fn call_native(x: XfnPtr, xs: &mut State) -> (r: Xresult)
    requires old(xs).inv()
    ensures
        final(xs).inv(),
        final(xs).ctx.ip == old(xs).ctx.ip,
        final(xs).code@.len() == old(xs).code@.len(),
        final(xs).insn_meter == old(xs).insn_meter,
        final(xs).last_error == old(xs).last_error,
        final(xs).ctx == old(xs).ctx, final(xs).nested@ == old(xs).nested@, final(xs).flow_stack@ == old(xs).flow_stack@,
        final(xs).debug_map@.len() == old(xs).debug_map@.len(),
        exists|n: nat| #[trigger] rev_w(old(xs), final(xs), n) && rev_ext(old(xs), final(xs), n),
{ unimplemented!() }

//@use state.fns ::do_init
//@use state.fns ::core_word_swap
//@use state.fns ::core_word_dup
//@use state.fns ::core_word_drop
//@use state.fns ::core_word_depth
//@use state.fns ::core_word_assert
//@use state.fns ::vec_builder_begin
//@use state.fns ::map_builder_begin
//@use state.fns ::foreach_next

impl Cell {
//@use cell.fns Cell::cond_true assumed
//@use cell.fns Cell::to_isize assumed
}
impl PartialEq for Cell { #[verifier::external_body] fn eq(&self, other: &Self) -> bool { unimplemented!() } }
// the literal conversions are the real ones of src/cell.rs
impl vstd::std_specs::convert::FromSpecImpl<Xstr> for Cell {
    open spec fn obeys_from_spec() -> bool { true }
    open spec fn from_spec(x: Xstr) -> Cell { Cell::Str(x) }
}
impl From<Xstr> for Cell {
//@use cell.fns "impl From<Xstr> for Cell"::from
}
impl vstd::std_specs::convert::FromSpecImpl<f64> for Cell {
    open spec fn obeys_from_spec() -> bool { true }
    open spec fn from_spec(x: f64) -> Cell { Cell::Real(x) }
}
impl From<f64> for Cell {
//@use cell.fns "impl From<f64> for Cell"::from
}
impl vstd::std_specs::convert::FromSpecImpl<usize> for Cell {
    open spec fn obeys_from_spec() -> bool { true }
    open spec fn from_spec(x: usize) -> Cell { Cell::Int(x as i128) }
}
impl From<usize> for Cell {
//@use cell.fns "impl From<usize> for Cell"::from
}
impl vstd::std_specs::convert::FromSpecImpl<i64> for Cell {
    open spec fn obeys_from_spec() -> bool { true }
    open spec fn from_spec(x: i64) -> Cell { Cell::Int(x as i128) }
}
impl From<i64> for Cell {
//@use cell.fns "impl From<i64> for Cell"::from
}
impl core::ops::Deref for Xstr { type Target = str; #[verifier::external_body] fn deref(&self) -> &str { unimplemented!() } }

// src/lex.rs token_location (verified in unit lex): here a function of the sources and the token
#[verifier::external_body] fn token_location(sources: &[(Xstr, Xstr)], token: &Xsubstr) -> (r: Option<TokenLocation>)
    ensures r == token_location_spec(sources@, *token) { unimplemented!() }

impl RelativeJump {
//@use cell.fns RelativeJump::calculate
//@use cell.fns RelativeJump::from_to
//@use cell.fns RelativeJump::uninit
}


// bindings of the core word table (Rword)
//@use corewords.fns State::load_core#w_dup
//@use corewords.fns State::load_core#w_drop
//@use corewords.fns State::load_core#w_swap
//@use corewords.fns State::load_core#w_depth
//@use corewords.fns State::load_core#w_assert
//@use corewords.fns State::load_core#w_rot
//@use corewords.fns State::load_core#w_over

} // verus!
fn main() {}
