#![feature(allocator_api)]
#![allow(unused_imports, dead_code, unused_variables, unused_mut, unused_assignments, non_camel_case_types)]
use vstd::prelude::*;
use std::rc::Rc;
use std::borrow::Cow;
use std::ops::Range;
use std::cmp::Ordering;
use vstd::std_specs::cmp::PartialOrdSpec;
verus! {

global size_of usize == 8;

//@include preamble/xbitstr_real.rs
//@include preamble/state_types.rs
//@include spec/cell_specs.rs
//@include spec/xmap_specs.rs
//@include spec/machine.rs
//@include spec/state_specs.rs
//@include spec/arith_specs.rs
//@include spec/cursor_specs.rs

pub type Xstate = State;
#[verifier::external_body] fn verif_lit_xstr() -> Xstr { unimplemented!() }
impl Xerr {
    #[verifier::external_body] pub fn out_of_range(idx: usize, range: Range<usize>) -> Xerr { unimplemented!() }
}

//@use cell.fns ::cell_type_error assumed
impl Cell {
//@use cell.fns Cell::value assumed
//@use cell.fns Cell::to_usize assumed
//@use cell.fns Cell::bitstr assumed
//@use cell.fns Cell::to_bitstr assumed
//@use cell.fns Cell::to_xint assumed
//@use cell.fns Cell::vec assumed
//@use cell.fns Cell::with_tags assumed
//@use cell.fns Cell::insert_tag assumed
//@use cell.fns Cell::get_tag assumed
}
impl vstd::std_specs::convert::FromSpecImpl<i128> for Cell {
    open spec fn obeys_from_spec() -> bool { true }
    open spec fn from_spec(x: i128) -> Cell { Cell::Int(x) }
}
impl From<i128> for Cell {
//@use cell.fns "impl From<i128> for Cell"::from
}
impl vstd::std_specs::convert::FromSpecImpl<f64> for Cell {
    open spec fn obeys_from_spec() -> bool { true }
    open spec fn from_spec(x: f64) -> Cell { Cell::Real(x) }
}
impl From<f64> for Cell {
//@use cell.fns "impl From<f64> for Cell"::from
}
impl vstd::std_specs::convert::FromSpecImpl<Xvec> for Cell {
    open spec fn obeys_from_spec() -> bool { true }
    open spec fn from_spec(x: Xvec) -> Cell { Cell::Vector(x) }
}
impl From<Xvec> for Cell {
//@use cell.fns "impl From<Xvec> for Cell"::from
}
impl Xvec {
    #[verifier::external_body] pub fn push_back(&self, c: Cell) -> (r: Xvec) ensures r@ == self@.push(c) { unimplemented!() }
    #[verifier::external_body] pub fn last(&self) -> (r: Option<&Cell>) ensures self@.len() > 0 ==> r == Some(&self@.last()), self@.len() == 0 ==> r is None { unimplemented!() }
    #[verifier::external_body] pub fn drop_last(&self) -> (r: Option<Xvec>) ensures self@.len() > 0 ==> r is Some && r->0@ == self@.drop_last(), self@.len() == 0 ==> r is None { unimplemented!() }
}
impl Xerr {
    #[verifier::external_body] pub fn out_of_bounds(idx: usize, len: usize) -> Xerr { unimplemented!() }
}
impl vstd::std_specs::convert::FromSpecImpl<usize> for Cell {
    open spec fn obeys_from_spec() -> bool { true }
    open spec fn from_spec(x: usize) -> Cell { Cell::Int(x as i128) }
}
impl From<usize> for Cell {
//@use cell.fns "impl From<usize> for Cell"::from
}
impl vstd::std_specs::convert::FromSpecImpl<Xbitstr> for Cell {
    open spec fn obeys_from_spec() -> bool { true }
    open spec fn from_spec(x: Xbitstr) -> Cell { Cell::Bitstr(x) }
}
impl From<Xbitstr> for Cell {
//@use cell.fns "impl From<Xbitstr> for Cell"::from
}

impl State {
//@use state.fns State::push_data assumed
//@use state.fns State::pop_data assumed
//@use state.fns State::get_var assumed
//@use state.fns State::set_var assumed
}

//@use cursor.fns ::current_input
//@use cursor.fns ::current_offset
//@use cursor.fns ::move_offset_checked
//@use cursor.fns ::peek_bits
//@use cursor.fns ::rest_bits
//@use cursor.fns ::read_bits
//@use cursor.fns ::word_seek
//@use cursor.fns ::word_remain
//@use cursor.fns ::word_bitstr
//@use cursor.fns ::word_bytes
//@use cursor.fns ::bitstr_num_tags
//@use cursor.fns ::float_len_err
//@use cursor.fns ::read_unsigned
//@use cursor.fns ::read_signed
//@use cursor.fns ::read_float
//@use cursor.fns ::open_bitstr
//@use cursor.fns ::word_close_bitstr
//@use cursor.fns ::word_open_bitstr
//@use cursor.fns ::pack_int_bo
//@use cursor.fns ::bitstring_append

// LIFO: close-bitstr after open-bitstr restores the previous input and offset (lemma over the two contracts)
fn lemma_close_restores_open(xs: &mut State, s: Bitstr)
    requires old(xs).inv(), old(xs).cursor_ok(), old(xs).stash_ok(), s.e() < usize::MAX
    ensures true
{
    let ghost a: State = *xs;
    let r1 = open_bitstr(xs, s);
    if r1.is_ok() {
        let r2 = word_close_bitstr(xs);
        assert(r2 is Ok);
        assert(xs.heap@[xs.in_ref()] == strip(a.heap@[a.in_ref()]));
        assert(xs.heap@[xs.off_ref()] == a.heap@[a.off_ref()]);
        assert(xs.stash() =~= a.stash());
    }
}

// R14: the number codecs of src/bitstr.rs, decided by the Kani families of C05; here their
// contract is "a function of the bit sequence and the byte order"
#[verifier::external_body] fn verif_to_uint(s: &Bitstr, order: Byteorder) -> (r: u128)
    requires s.view().len() <= 128 ensures r == uint_of(s.view(), order), s.view().len() <= 127 ==> r <= i128::MAX { unimplemented!() }
#[verifier::external_body] fn verif_to_int(s: &Bitstr, order: Byteorder) -> (r: i128)
    requires s.view().len() <= 128 ensures r == int_of(s.view(), order) { unimplemented!() }
pub uninterp spec fn bits_from_int(v: i128, n: int, order: Byteorder) -> Seq<bool>;
#[verifier::external_body] fn verif_from_int(v: i128, n: usize, order: Byteorder) -> (r: Bitstr)
    ensures r.view() == bits_from_int(v, n as int, order), r.view().len() == n, r.s() == 0 { unimplemented!() }
#[verifier::external_body] fn verif_to_f32(s: &Bitstr, order: Byteorder) -> (r: f32) ensures r == f32_of(s.view(), order) { unimplemented!() }
#[verifier::external_body] fn verif_to_f64(s: &Bitstr, order: Byteorder) -> (r: f64) ensures r == f64_of(s.view(), order) { unimplemented!() }
// R3k: the tag key constant OFFSET_LIT (a string literal cell)
#[verifier::external_body] fn verif_offset_lit() -> (r: Cell) ensures r == offset_lit() { unimplemented!() }

} // verus!
fn main() {}
