#![feature(allocator_api)]
#![allow(unused_imports, dead_code, unused_variables, unused_mut, unused_assignments, non_camel_case_types)]
use vstd::prelude::*;
use std::rc::Rc;
use std::borrow::Cow;
use std::ops::Range;
use std::cmp::Ordering;
use vstd::std_specs::cmp::PartialOrdSpec;
verus! {

global size_of usize == 8;

//@include preamble/xbitstr_real.rs
//@include preamble/state_types.rs
//@include preamble/lex_opaque.rs
//@include spec/cell_specs.rs
//@include spec/xmap_specs.rs
//@include spec/machine.rs
//@include spec/state_specs.rs
//@include spec/arith_specs.rs
//@include spec/cursor_specs.rs
//@include spec/lit_specs.rs
// the character-level text model (byte offsets, boundaries) for the one word that slices a string: hex>bitstr
#[verifier::external_body] pub struct CharIdx { _p: u8 }
//@include preamble/lex_model.rs
//@include spec/lex_specs.rs

pub type Xstate = State;
#[verifier::external_body] fn verif_lit_xstr() -> Xstr { unimplemented!() }
impl Xerr {
    #[verifier::external_body] pub fn out_of_range(idx: usize, range: Range<usize>) -> Xerr { unimplemented!() }
}

//@use cell.fns ::cell_type_error assumed
impl Cell {
//@use cell.fns Cell::value assumed
//@use cell.fns Cell::to_usize assumed
//@use cell.fns Cell::bitstr assumed
//@use cell.fns Cell::to_bitstr assumed
//@use cell.fns Cell::to_xint assumed
//@use cell.fns Cell::to_real assumed
//@use cell.fns Cell::to_xstr assumed
//@use cell.fns Cell::vec assumed
//@use cell.fns Cell::with_tags assumed
//@use cell.fns Cell::insert_tag assumed
//@use cell.fns Cell::get_tag assumed
}
impl vstd::std_specs::convert::FromSpecImpl<i128> for Cell {
    open spec fn obeys_from_spec() -> bool { true }
    open spec fn from_spec(x: i128) -> Cell { Cell::Int(x) }
}
impl From<i128> for Cell {
//@use cell.fns "impl From<i128> for Cell"::from
}
impl vstd::std_specs::convert::FromSpecImpl<f64> for Cell {
    open spec fn obeys_from_spec() -> bool { true }
    open spec fn from_spec(x: f64) -> Cell { Cell::Real(x) }
}
impl From<f64> for Cell {
//@use cell.fns "impl From<f64> for Cell"::from
}
impl vstd::std_specs::convert::FromSpecImpl<Xvec> for Cell {
    open spec fn obeys_from_spec() -> bool { true }
    open spec fn from_spec(x: Xvec) -> Cell { Cell::Vector(x) }
}
impl From<Xvec> for Cell {
//@use cell.fns "impl From<Xvec> for Cell"::from
}
impl Xvec {
    #[verifier::external_body] pub fn push_back(&self, c: Cell) -> (r: Xvec) ensures r@ == self@.push(c) { unimplemented!() }
    #[verifier::external_body] pub fn last(&self) -> (r: Option<&Cell>) ensures self@.len() > 0 ==> r == Some(&self@.last()), self@.len() == 0 ==> r is None { unimplemented!() }
    #[verifier::external_body] pub fn drop_last(&self) -> (r: Option<Xvec>) ensures self@.len() > 0 ==> r is Some && r->0@ == self@.drop_last(), self@.len() == 0 ==> r is None { unimplemented!() }
}
impl Xerr {
    #[verifier::external_body] pub fn out_of_bounds(idx: usize, len: usize) -> Xerr { unimplemented!() }
}
impl vstd::std_specs::convert::FromSpecImpl<usize> for Cell {
    open spec fn obeys_from_spec() -> bool { true }
    open spec fn from_spec(x: usize) -> Cell { Cell::Int(x as i128) }
}
impl From<usize> for Cell {
//@use cell.fns "impl From<usize> for Cell"::from
}
impl vstd::std_specs::convert::FromSpecImpl<Xbitstr> for Cell {
    open spec fn obeys_from_spec() -> bool { true }
    open spec fn from_spec(x: Xbitstr) -> Cell { Cell::Bitstr(x) }
}
impl From<Xbitstr> for Cell {
//@use cell.fns "impl From<Xbitstr> for Cell"::from
}

impl State {
//@use state.fns State::push_data assumed
//@use state.fns State::pop_data assumed
//@use state.fns State::get_var assumed
//@use state.fns State::set_var assumed
//@use state.fns State::update_var assumed
}

//@use cursor.fns ::current_input
//@use cursor.fns ::current_offset
//@use cursor.fns ::move_offset_checked
//@use cursor.fns ::peek_bits
//@use cursor.fns ::rest_bits
//@use cursor.fns ::read_bits
//@use cursor.fns ::word_seek
//@use cursor.fns ::word_remain
//@use cursor.fns ::word_bitstr
//@use cursor.fns ::word_bytes
//@use cursor.fns ::bitstr_num_tags
//@use cursor.fns ::float_len_err
//@use cursor.fns ::read_unsigned
//@use cursor.fns ::read_signed
//@use cursor.fns ::read_float
//@use cursor.fns ::open_bitstr
//@use cursor.fns ::word_close_bitstr
//@use cursor.fns ::word_open_bitstr
//@use cursor.fns ::pack_int_bo
//@use cursor.fns ::bitstring_append
//@use cursor.fns ::current_byteorder
//@use cursor.fns ::set_byteorder
//@use cursor.fns ::read_unsigned_n
//@use cursor.fns ::read_signed_n
//@use cursor.fns ::read_float_n
//@use cursor.fns ::pack_int
//@use cursor.fns ::pack_float_bo
//@use cursor.fns ::pack_float
//@use cursor.fns ::word_bitstr_not
//@use cursor.fns ::bitstr_len
//@use cursor.fns ::b_units
//@use cursor.fns ::kb_units
//@use cursor.fns ::mb_units


// ================= >bitstr (bitstr_concat): flattening nested vectors of byte items and bit-strings =================
//@include preamble/xvec_iter.rs
// the UTF-8 bytes of a string (`s.to_string().into_bytes()`, `s.as_bytes().to_vec()`): ASSUMED to be one function of the string
pub uninterp spec fn str_bytes(s: Xstr) -> Seq<u8>;
#[verifier::external_body] fn verif_str_bytes(s: &Xstr) -> (r: Vec<u8>) ensures r@ == str_bytes(*s), r@.len() * 8 <= usize::MAX / 2 { unimplemented!() }
impl Xerr { #[verifier::external_body] pub fn type_not_supported(val: Cell) -> Xerr { unimplemented!() } }
//@include preamble/cell_depth.rs
// the bits one element of a `>bitstr` list contributes: an int 0..255 one byte, a string its bytes, a bit-string
// its bits, a nested vector the concatenation of its elements in order; anything else is an error
spec fn item_bits(x: Cell) -> Option<Seq<bool>>
    decreases cell_depth(x), 2nat, 0int
    via item_bits_dec
{
    match strip(x) {
        Cell::Int(i) => if 0 <= i <= 255 { Some(bits_of(seq![i as u8], 0, 8)) } else { None },
        Cell::Str(s) => Some(bits_of(str_bytes(s), 0, 8 * str_bytes(s).len() as int)),
        Cell::Bitstr(b) => Some(b.view()),
        Cell::Vector(v) => vec_bits(v, v@.len() as int),
        _ => None,
    }
}
spec fn vec_bits(v: Xvec, n: int) -> Option<Seq<bool>>
    decreases cell_depth(Cell::Vector(v)), 1nat, n
    via vec_bits_dec
{
    if n <= 0 { Some(Seq::empty()) } else if n > v@.len() { None } else {
        match (vec_bits(v, n - 1), item_bits(v@[n - 1])) { (Some(a), Some(b)) => Some(a + b), _ => None }
    }
}
#[via_fn] proof fn item_bits_dec(x: Cell) { axiom_depth_strip(x); }
#[via_fn] proof fn vec_bits_dec(v: Xvec, n: int) { if 0 < n <= v@.len() { axiom_depth_elem(v, n - 1); } }
// what `>bitstr` denotes: a string, a (nested) vector or a bit-string; a bare int is not accepted at top level
spec fn concat_bits(val: Cell) -> Option<Seq<bool>> { if strip(val) is Int { None } else { item_bits(val) } }

// modest sizes: the number of bits the items would contribute (errors ignored) - bounds every intermediate length
spec fn item_size(x: Cell) -> nat
    decreases cell_depth(x), 2nat, 0int
    via item_size_dec
{
    match strip(x) {
        Cell::Int(i) => 8,
        Cell::Str(s) => 8 * str_bytes(s).len(),
        Cell::Bitstr(b) => b.view().len(),
        Cell::Vector(v) => vec_size(v, v@.len() as int),
        _ => 0,
    }
}
spec fn vec_size(v: Xvec, n: int) -> nat
    decreases cell_depth(Cell::Vector(v)), 1nat, n
    via vec_size_dec
{
    if n <= 0 || n > v@.len() { 0 } else { vec_size(v, n - 1) + item_size(v@[n - 1]) }
}
#[via_fn] proof fn item_size_dec(x: Cell) { axiom_depth_strip(x); }
#[via_fn] proof fn vec_size_dec(v: Xvec, n: int) { if 0 < n <= v@.len() { axiom_depth_elem(v, n - 1); } }
proof fn lemma_vec_size_mono(v: Xvec, i: int, j: int)
    requires 0 <= i <= j <= v@.len()
    ensures vec_size(v, i) <= vec_size(v, j)
    decreases j - i
{
    if i < j { lemma_vec_size_mono(v, i, j - 1); }
}
// a successful flattening has exactly the size
proof fn lemma_bits_len(x: Cell)
    ensures item_bits(x) is Some ==> item_bits(x)->0.len() == item_size(x)
    decreases cell_depth(x), 2nat, 0int
{
    axiom_depth_strip(x);
    match strip(x) { Cell::Vector(v) => { lemma_vec_bits_len(v, v@.len() as int); } _ => {} }
}
proof fn lemma_vec_bits_len(v: Xvec, n: int)
    requires 0 <= n <= v@.len()
    ensures vec_bits(v, n) is Some ==> vec_bits(v, n)->0.len() == vec_size(v, n)
    decreases cell_depth(Cell::Vector(v)), 1nat, n
{
    if n > 0 { axiom_depth_elem(v, n - 1); lemma_vec_bits_len(v, n - 1); lemma_bits_len(v@[n - 1]); }
}

// one failing element makes every longer prefix fail
proof fn lemma_vec_bits_none(v: Xvec, k: int, n: int)
    requires 0 < k <= n <= v@.len(), vec_bits(v, k) is None
    ensures vec_bits(v, n) is None
    decreases n - k
{
    if k < n { lemma_vec_bits_none(v, k, n - 1); }
}

//@use cursor.fns ::bitstr_concat
//@use cursor.fns ::into_bitstr
//@use cursor.fns ::word_into_bitstr

// ---- emit
impl CellRef {
    // `self != &Self::default()`, Default = CellRef(usize::MAX) (derived PartialEq; ASSUMED)
    #[verifier::external_body] pub(crate) fn is_initialized(&self) -> (r: bool) ensures r == (self.0 != usize::MAX) { unimplemented!() }
}
impl Bitstr {
    // byte export as a Cow (verified as to_bytes / to_bytes_with_padding in unit bitstr; here only when it exists)
    #[verifier::external_body] pub fn bytestr<'a>(&'a self) -> (r: Option<std::borrow::Cow<'a, [u8]>>)
        ensures r is Some <==> self.view().len() % 8 == 0,
            r is Some ==> cow_bytes(r->0).len() * 8 == self.view().len() && bits_of(cow_bytes(r->0), 0, 8 * cow_bytes(r->0).len() as int) == self.view() { unimplemented!() }
}
// Rext: crate::file::write_to_stdout (I/O): some result, the interpreter state is not an argument
#[verifier::external_body] fn verif_write_stdout(buf: &std::borrow::Cow<'_, [u8]>) -> Xresult { unimplemented!() }
//@use cursor.fns ::word_emit
// Rext: position of the first differing bit, only reported inside the MatchError (iterator chain `bits().zip().position()`)
// (ASSUMED std: `position` over the zip of the two bit iterators is an index below both lengths; `unwrap_or(0)` otherwise)
#[verifier::external_body] fn verif_mismatch_pos(s: &Bitstr, pat: &Bitstr) -> (r: usize)
    ensures r <= s.view().len(), r <= pat.view().len()
{ unimplemented!() }
//@include preamble/fmt_sink.rs
//@use cursor.fns "impl fmt::Display for Xerr"::fmt#match_error
//@use cursor.fns ::word_magic
// `Cell::Str(Xstr::from(x))` (src/cell.rs): ASSUMED one-liner over the arcstr conversion
impl From<String> for Cell { #[verifier::external_body] fn from(x: String) -> (r: Cell) ensures r is Str && xstr_chars(r->Str_0) == x@ { unimplemented!() } }
//@use cursor.fns ::bitstr_to_hex
// `&s` where a `&str` is expected (ArcStr: Deref<Target = str>): the characters of the text
impl core::ops::Deref for Xstr { type Target = str; #[verifier::external_body] fn deref(&self) -> (r: &str) ensures r@ == xtext(*self) { unimplemented!() } }
impl Xstr {
    // ArcStr::substr(a..): to the end of the text; panics unless `a` is a character boundary inside it
    #[verifier::external_body]
    pub fn substr_from(&self, a: usize) -> (t: Xsubstr)
        requires a <= blen(xtext(*self)), is_boundary(xtext(*self), a as int)
    { unimplemented!() }
}
// characters that are blanks or hex digits are ASCII: one byte each, so a character index is a byte offset
proof fn lemma_hex_prefix_ascii(s: Seq<char>, n: int)
    requires 0 <= n <= s.len(), hex_ok(s, n)
    ensures off(s, n) == n
    decreases n
{
    if n > 0 {
        lemma_hex_prefix_ascii(s, n - 1);
        let c = s[n - 1];
        assert(is_ws(c) || hexval(c) is Some);
        assert(cu(c) < 0x80);
        assert(ulen(c) == 1);
    }
}
//@use cursor.fns ::hex_to_bitstr
// the hex dump printer (fmt_bitstr_dump + State::print): ASSUMED to print and return; it sees the state read-only but for stdout
#[verifier::external_body] fn dump_bitstr(xs: &mut State, s: &Bitstr, ncols: usize) -> (r: Xresult)
    ensures *final(xs) == (State { stdout: final(xs).stdout, ..*old(xs) })
{ unimplemented!() }
proof fn lemma_rev_stdout(a: State, mid: State, fin: State, n: nat)
    requires rev_w(&a, &mid, n), rev_ext(&a, &mid, n), fin == (State { stdout: fin.stdout, ..mid })
    ensures rev_w(&a, &fin, n), rev_ext(&a, &fin, n)
{
    assert(fin.mach() == mid.mach() && fin.log() == mid.log() && fin.bases() == mid.bases() && fin.rec() == mid.rec());
    assert forall|b: State, k: nat| #[trigger] rev_w(&b, &a, k) implies rev_w(&b, &fin, k + n) by {
        assert(rev_w(&b, &mid, k + n));
    }
}
// the bit builder (verified in unit bitstr with these postconditions) and the spec of bitstr-and/or/xor
#[verifier::external_body] pub struct BitvecBuilder { _p: u8 }
impl BitvecBuilder {
    pub uninterp spec fn bits(&self) -> Seq<bool>;
    #[verifier::external_body] pub fn default() -> (r: BitvecBuilder) ensures r.bits() == Seq::<bool>::empty() { unimplemented!() }
    #[verifier::external_body] pub fn append_bit(&mut self, val: u8) requires val <= 1 ensures final(self).bits() == old(self).bits().push(val == 1) { unimplemented!() }
    #[verifier::external_body] pub fn finish(self) -> (r: Bitstr) ensures r.view() == self.bits() { unimplemented!() }
}
pub open spec fn b01(b: bool) -> u8 { if b { 1u8 } else { 0u8 } }
// the operator of a zip walk: callable on every pair, 0/1 in gives 0/1 out (what `append_bit` asserts)
pub open spec fn op01<F: Fn(u8, u8) -> u8>(op: F) -> bool {
    &&& forall|x: u8, y: u8| op.requires((x, y))
    &&& forall|x: u8, y: u8, r: u8| x <= 1 && y <= 1 && op.ensures((x, y), r) ==> r <= 1
}
// r = a zipped with b repeated cyclically (empty when b is empty), bit by bit through the operator's own postcondition
pub open spec fn zip_cyc<F: Fn(u8, u8) -> u8>(op: F, a: Seq<bool>, b: Seq<bool>, r: Seq<bool>) -> bool {
    forall|i: int| 0 <= i < r.len() ==> op.ensures((b01(a[i]), b01(b[i % (b.len() as int)])), b01(#[trigger] r[i]))
}
spec fn zip_a(s: &State) -> Seq<bool> { arg_a(s)->Bitstr_0.view() }
spec fn zip_b(s: &State) -> Seq<bool> { arg_b(s)->Bitstr_0.view() }
spec fn zip_res(s: &State) -> Seq<bool> { s.data_stack@.last()->Bitstr_0.view() }
spec fn zip_shape(a: &State, f: &State) -> bool {
    bin_args(a) && arg_a(a) is Bitstr && arg_b(a) is Bitstr
        && f.data_stack@.len() == a.data_stack@.len() - 1
        && f.data_stack@.drop_last() == a.data_stack@.take(a.data_stack@.len() - 2)
        && f.data_stack@.last() is Bitstr
        && zip_res(f).len() == (if zip_b(a).len() == 0 { 0 } else { zip_a(a).len() })
}
proof fn lemma_mod_succ(k: int, d: int)
    requires k >= 0, d > 0
    ensures 0 <= k % d < d, (k + 1) % d == (if k % d + 1 == d { 0 } else { k % d + 1 })
{
    vstd::arithmetic::div_mod::lemma_fundamental_div_mod(k, d);
    vstd::arithmetic::div_mod::lemma_mod_bound(k, d);
    let q = k / d; let r = k % d;
    if r + 1 == d {
        assert(k + 1 == (q + 1) * d + 0) by (nonlinear_arith) requires k == d * q + r, r + 1 == d;
        vstd::arithmetic::div_mod::lemma_fundamental_div_mod_converse(k + 1, d, q + 1, 0);
    } else {
        assert(k + 1 == q * d + (r + 1)) by (nonlinear_arith) requires k == d * q + r;
        vstd::arithmetic::div_mod::lemma_fundamental_div_mod_converse(k + 1, d, q, r + 1);
    }
}
// and / or / xor on the two values 0 and 1
proof fn lemma_ops01()
    ensures
        0u8 & 0u8 == 0u8, 0u8 & 1u8 == 0u8, 1u8 & 0u8 == 0u8, 1u8 & 1u8 == 1u8,
        0u8 | 0u8 == 0u8, 0u8 | 1u8 == 1u8, 1u8 | 0u8 == 1u8, 1u8 | 1u8 == 1u8,
        0u8 ^ 0u8 == 0u8, 0u8 ^ 1u8 == 1u8, 1u8 ^ 0u8 == 1u8, 1u8 ^ 1u8 == 0u8,
{
    assert(0u8 & 0u8 == 0u8 && 0u8 & 1u8 == 0u8 && 1u8 & 0u8 == 0u8 && 1u8 & 1u8 == 1u8) by (bit_vector);
    assert(0u8 | 0u8 == 0u8 && 0u8 | 1u8 == 1u8 && 1u8 | 0u8 == 1u8 && 1u8 | 1u8 == 1u8) by (bit_vector);
    assert(0u8 ^ 0u8 == 0u8 && 0u8 ^ 1u8 == 1u8 && 1u8 ^ 0u8 == 1u8 && 1u8 ^ 1u8 == 0u8) by (bit_vector);
}
//@use cursor.fns ::bitstring_zip_with
//@use cursor.fns ::bitstring_and
//@use cursor.fns ::bitstring_or
//@use cursor.fns ::bitstring_xor
// the system's random source (getrandom crate; ASSUMED): fills the buffer
#[verifier::external_body] fn verif_getrandom(buf: &mut Vec<u8>) ensures final(buf)@.len() == old(buf)@.len() { unimplemented!() }
//@use bitstr.fns ::upper_bound_index assumed
//@use cursor.fns ::random_bits
#[verifier::external_body] fn verif_exec_piped(path: &Xstr, buf: &std::borrow::Cow<'_, [u8]>) -> (r: Xresult1<Vec<u8>>) ensures r is Ok ==> r->Ok_0@.len() * 8 <= usize::MAX { unimplemented!() }
//@use cursor.fns ::word_exec_piped
//@use cursor.fns ::intercept_output
// ASSUMED stubs: UTF-8 decoding (String::from_utf8 + error bookkeeping), the file system
#[verifier::external_body] fn decode_utf8_str(bytes: Vec<u8>) -> Xresult1<String> { unimplemented!() }
#[verifier::external_body] fn verif_cow_into_owned(c: std::borrow::Cow<'_, [u8]>) -> (r: Vec<u8>) ensures r@ == cow_bytes(c) { unimplemented!() }
#[verifier::external_body] fn verif_fs_write_all(path: &Xstr, s: &Bitstr) -> Xresult { unimplemented!() }
#[verifier::external_body] fn verif_fs_read_all(path: &Xstr) -> (r: Xresult1<Vec<u8>>) ensures r is Ok ==> r->Ok_0@.len() * 8 <= usize::MAX { unimplemented!() }
//@use cursor.fns ::bitstr_to_utf8
//@use cursor.fns ::word_write
//@use cursor.fns ::word_read_all
//@use cursor.fns ::dump_bitstr_at
//@use cursor.fns ::word_dump
//@use cursor.fns ::word_dump_at
// the memchr crate's substring search (dependency; ASSUMED): the first occurrence, if any
pub mod memmem {
    use super::*;
    pub open spec fn occurs_at(h: Seq<u8>, n: Seq<u8>, p: int) -> bool { 0 <= p && p + n.len() <= h.len() && h.subrange(p, p + n.len()) == n }
    #[verifier::external_body]
    pub fn find(haystack: &&[u8], needle: &std::borrow::Cow<'_, [u8]>) -> (r: Option<usize>)
        ensures
            r is Some ==> occurs_at(haystack@, cow_bytes(*needle), r->0 as int)
                && forall|p: int| 0 <= p < r->0 ==> !#[trigger] occurs_at(haystack@, cow_bytes(*needle), p),
            r is None ==> forall|p: int| !#[trigger] occurs_at(haystack@, cow_bytes(*needle), p),
    { unimplemented!() }
}
//@use cursor.fns ::word_find

// ---- nulbytestr: the bytes up to and including the first zero byte
spec fn byte_zero(v: Seq<bool>, k: int) -> bool {
    !v[8 * k] && !v[8 * k + 1] && !v[8 * k + 2] && !v[8 * k + 3] && !v[8 * k + 4] && !v[8 * k + 5] && !v[8 * k + 6] && !v[8 * k + 7]
}
// number of bytes taken when scanning from byte i: up to and including the first zero byte, or all of them
spec fn nul_scan(v: Seq<bool>, i: int) -> int
    decreases (if v.len() - 8 * i > 0 { v.len() - 8 * i } else { 0 })
{
    if i < 0 || 8 * i >= v.len() { if i < 0 { 0 } else { i } } else if byte_zero(v, i) { i + 1 } else { nul_scan(v, i + 1) }
}
// a full group is zero exactly when its eight bits are
proof fn lemma_group_zero(s: Seq<u8>, pos: int, g: (u8, u32))
    requires is_group(s, pos, 8, g)
    ensures (g.0 == 0u8) <==> (!bit_at(s, pos) && !bit_at(s, pos + 1) && !bit_at(s, pos + 2) && !bit_at(s, pos + 3)
        && !bit_at(s, pos + 4) && !bit_at(s, pos + 5) && !bit_at(s, pos + 6) && !bit_at(s, pos + 7))
{
    let x = g.0;
    assert(x == 0u8 <==> ((x >> 7u8) & 1u8 != 1u8 && (x >> 6u8) & 1u8 != 1u8 && (x >> 5u8) & 1u8 != 1u8 && (x >> 4u8) & 1u8 != 1u8
        && (x >> 3u8) & 1u8 != 1u8 && (x >> 2u8) & 1u8 != 1u8 && (x >> 1u8) & 1u8 != 1u8 && (x >> 0u8) & 1u8 != 1u8)) by (bit_vector);
    assert(field_bit(x, 8, 0) == bit_at(s, pos + 0)); assert(field_bit(x, 8, 1) == bit_at(s, pos + 1));
    assert(field_bit(x, 8, 2) == bit_at(s, pos + 2)); assert(field_bit(x, 8, 3) == bit_at(s, pos + 3));
    assert(field_bit(x, 8, 4) == bit_at(s, pos + 4)); assert(field_bit(x, 8, 5) == bit_at(s, pos + 5));
    assert(field_bit(x, 8, 6) == bit_at(s, pos + 6)); assert(field_bit(x, 8, 7) == bit_at(s, pos + 7));
    assert(field_bit(x, 8, 0) == (((x >> 7u8) & 1u8) == 1u8));
    assert(field_bit(x, 8, 1) == (((x >> 6u8) & 1u8) == 1u8));
    assert(field_bit(x, 8, 2) == (((x >> 5u8) & 1u8) == 1u8));
    assert(field_bit(x, 8, 3) == (((x >> 4u8) & 1u8) == 1u8));
    assert(field_bit(x, 8, 4) == (((x >> 3u8) & 1u8) == 1u8));
    assert(field_bit(x, 8, 5) == (((x >> 2u8) & 1u8) == 1u8));
    assert(field_bit(x, 8, 6) == (((x >> 1u8) & 1u8) == 1u8));
    assert(field_bit(x, 8, 7) == (((x >> 0u8) & 1u8) == 1u8));
}
//@use cursor.fns ::nulbytestr_read
//@use cursor.fns ::nulbytestr_word
// the value of byte k of a bit sequence, and the C string a bit sequence starts with: the bytes before the first zero
// byte (or all whole bytes), each as the character with that code (Latin-1)
spec fn byte_val(v: Seq<bool>, k: int) -> u8 {
    pack8(v[8 * k], v[8 * k + 1], v[8 * k + 2], v[8 * k + 3], v[8 * k + 4], v[8 * k + 5], v[8 * k + 6], v[8 * k + 7])
}
spec fn cstr_of(v: Seq<bool>, i: int) -> Seq<char>
    decreases (if v.len() - 8 * i > 0 { v.len() - 8 * i } else { 0 })
{
    if i < 0 || 8 * i + 8 > v.len() || byte_zero(v, i) { Seq::empty() } else { seq![byte_val(v, i) as char] + cstr_of(v, i + 1) }
}
// scanning from byte i takes at least up to i
proof fn lemma_nul_scan_ge(v: Seq<bool>, i: int)
    requires i >= 0
    ensures nul_scan(v, i) >= i, nul_scan(v, i) == i ==> 8 * i >= v.len()
    decreases (if v.len() - 8 * i > 0 { v.len() - 8 * i } else { 0 })
{
    if 8 * i < v.len() && !byte_zero(v, i) { lemma_nul_scan_ge(v, i + 1); }
}
// a full group IS the byte value of its eight bits
proof fn lemma_group_byte(s: Seq<u8>, pos: int, g: (u8, u32), v: Seq<bool>, k: int)
    requires
        is_group(s, pos, 8, g),
        v[8 * k] == bit_at(s, pos), v[8 * k + 1] == bit_at(s, pos + 1), v[8 * k + 2] == bit_at(s, pos + 2), v[8 * k + 3] == bit_at(s, pos + 3),
        v[8 * k + 4] == bit_at(s, pos + 4), v[8 * k + 5] == bit_at(s, pos + 5), v[8 * k + 6] == bit_at(s, pos + 6), v[8 * k + 7] == bit_at(s, pos + 7),
    ensures g.0 == byte_val(v, k)
{
    let x = g.0;
    let w = byte_val(v, k);
    lemma_pack8(v[8 * k], v[8 * k + 1], v[8 * k + 2], v[8 * k + 3], v[8 * k + 4], v[8 * k + 5], v[8 * k + 6], v[8 * k + 7]);
    assert(field_bit(x, 8, 0) == bit_at(s, pos + 0)); assert(field_bit(x, 8, 1) == bit_at(s, pos + 1));
    assert(field_bit(x, 8, 2) == bit_at(s, pos + 2)); assert(field_bit(x, 8, 3) == bit_at(s, pos + 3));
    assert(field_bit(x, 8, 4) == bit_at(s, pos + 4)); assert(field_bit(x, 8, 5) == bit_at(s, pos + 5));
    assert(field_bit(x, 8, 6) == bit_at(s, pos + 6)); assert(field_bit(x, 8, 7) == bit_at(s, pos + 7));
    assert(forall|a: u8, i: u8| i < 8 ==> #[trigger] ((a >> i) & 1u8) <= 1u8) by (bit_vector);
    lemma_low_bits_determine(x, w);
}
pub assume_specification [ String::with_capacity ] (n: usize) -> (r: String)
    ensures r@ == Seq::<char>::empty();
// char::from_u32: every code below the surrogate range is a character (ASSUMED std)
pub assume_specification [ char::from_u32 ] (i: u32) -> (r: Option<char>)
    ensures i < 0xD800 ==> r is Some && r->0 as u32 == i;
//@use cursor.fns ::cstr_word

// ================= text encodings (C18): base32 / base32hex / base64 / zero85 words =================
// The three codec crates are dependencies: stand-ins with ASSUMED contracts.  The round-trip law
// decode(encode(b)) == b of each crate is ASSUMED (axiom_*_roundtrip); what is CHECKED is everything xeh owns: both
// directions of a pair use the same codec and alphabet, the encoder takes what `>bitstr` takes and encodes its bytes,
// an undecodable text gives nil, never an error or another value.
pub uninterp spec fn cow_bytes(c: std::borrow::Cow<'_, [u8]>) -> Seq<u8>;
pub mod base32 {
    use super::*;
    pub enum Alphabet { RFC4648 { padding: bool }, Crockford }
    pub uninterp spec fn enc(a: Alphabet, b: Seq<u8>) -> Seq<char>;
    pub uninterp spec fn dec(a: Alphabet, t: Seq<char>) -> Option<Seq<u8>>;
    #[verifier::external_body] pub fn encode(a: Alphabet, data: &std::borrow::Cow<'_, [u8]>) -> (r: String)
        ensures r@ == enc(a, cow_bytes(*data)) { unimplemented!() }
    #[verifier::external_body] pub fn decode(a: Alphabet, data: &Xstr) -> (r: Option<Vec<u8>>)
        ensures (r is Some) == (dec(a, xstr_chars(*data)) is Some), r is Some ==> r->0@ == dec(a, xstr_chars(*data))->0 && r->0@.len() * 8 <= usize::MAX { unimplemented!() }
    #[verifier::external_body] pub proof fn axiom_roundtrip(a: Alphabet, b: Seq<u8>) ensures dec(a, enc(a, b)) == Some(b) {}
}
pub mod base64 {
    use super::*;
    pub trait Engine {}
    pub uninterp spec fn enc(b: Seq<u8>) -> Seq<char>;
    pub uninterp spec fn dec(t: Seq<char>) -> Option<Seq<u8>>;
    #[verifier::external_body] pub proof fn axiom_roundtrip(b: Seq<u8>) ensures dec(enc(b)) == Some(b) {}
    pub mod engine { pub mod general_purpose {
        use super::super::super::*;
        pub struct GeneralPurpose { pub _p: u8 }
        pub const STANDARD: GeneralPurpose = GeneralPurpose { _p: 0 };
        impl GeneralPurpose {
            #[verifier::external_body] pub fn encode(&self, data: &std::borrow::Cow<'_, [u8]>) -> (r: String)
                ensures r@ == super::super::enc(cow_bytes(*data)) { unimplemented!() }
            #[verifier::external_body] pub fn decode(&self, data: &Xstr) -> (r: Result<Vec<u8>, ()>)
                ensures (r is Ok) == (super::super::dec(xstr_chars(*data)) is Some), r is Ok ==> r->Ok_0@ == super::super::dec(xstr_chars(*data))->0 && r->Ok_0@.len() * 8 <= usize::MAX { unimplemented!() }
        }
    } }
}
pub mod z85 {
    use super::*;
    pub uninterp spec fn enc(b: Seq<u8>) -> Seq<char>;
    pub uninterp spec fn dec(t: Seq<char>) -> Option<Seq<u8>>;
    #[verifier::external_body] pub proof fn axiom_roundtrip(b: Seq<u8>) ensures dec(enc(b)) == Some(b) {}
    #[verifier::external_body] pub fn encode(data: &std::borrow::Cow<'_, [u8]>) -> (r: String)
        ensures r@ == enc(cow_bytes(*data)) { unimplemented!() }
    #[verifier::external_body] pub fn decode(data: &Xstr) -> (r: Result<Vec<u8>, ()>)
        ensures (r is Ok) == (dec(xstr_chars(*data)) is Some), r is Ok ==> r->Ok_0@ == dec(xstr_chars(*data))->0 && r->Ok_0@.len() * 8 <= usize::MAX { unimplemented!() }
}
impl vstd::std_specs::convert::FromSpecImpl<Xstr> for Cell {
    open spec fn obeys_from_spec() -> bool { true }
    open spec fn from_spec(x: Xstr) -> Cell { Cell::Str(x) }
}
impl From<Xstr> for Cell {
//@use cell.fns "impl From<Xstr> for Cell"::from
}
//@use encode.fns ::base32_encode2
//@use encode.fns ::base32_encode
//@use encode.fns ::base32hex_encode
//@use encode.fns ::base32_decode2
//@use encode.fns ::base32_decode
//@use encode.fns ::base32hex_decode
//@use encode.fns ::base64_encode
//@use encode.fns ::base64_decode2
//@use encode.fns ::base64_decode
//@use encode.fns ::zero85_encode
//@use encode.fns ::zero85_decode_res
//@use encode.fns ::zero85_decode
//@use encode.fns ::load#w_base32
//@use encode.fns ::load#w_base32_to
//@use encode.fns ::load#w_base32hex
//@use encode.fns ::load#w_base32hex_to
//@use encode.fns ::load#w_base64
//@use encode.fns ::load#w_base64_to
//@use encode.fns ::load#w_zero85
//@use encode.fns ::load#w_zero85_to

// C18, the four pairs: encode then decode gives back the bytes (lemmas over the word contracts + the ASSUMED crate law)
fn lemma_base32_pair(xs: &mut State)
    requires old(xs).inv(), un_arg(old(xs)) ==> item_size(old(xs).data_stack@.last()) <= 0x1000_0000_0000
{
    let ghost v = xs.data_stack@.last();
    let ghost a0: State = *xs;
    let r1 = base32_encode(xs);
    if r1.is_ok() {
        proof {
            let n = choose|n: nat| rev_w(&a0, &*xs, n);
            assert(xs.bases() == a0.bases());
            assert(un_arg(&*xs));
            let b = choose|b: Seq<u8>| #[trigger] bits_of(b, 0, 8 * b.len() as int) == concat_bits(v)->0
                && xstr_chars(xs.data_stack@.last()->Str_0) == base32::enc(base32::Alphabet::RFC4648 { padding: true }, b);
            base32::axiom_roundtrip(base32::Alphabet::RFC4648 { padding: true }, b);
        }
        let r2 = base32_decode(xs);
        assert(r2 is Ok ==> xs.data_stack@.last() is Bitstr && xs.data_stack@.last()->Bitstr_0.view() == concat_bits(v)->0);
    }
}
fn lemma_base32hex_pair(xs: &mut State)
    requires old(xs).inv(), un_arg(old(xs)) ==> item_size(old(xs).data_stack@.last()) <= 0x1000_0000_0000
{
    let ghost v = xs.data_stack@.last();
    let ghost a0: State = *xs;
    let r1 = base32hex_encode(xs);
    if r1.is_ok() {
        proof {
            let n = choose|n: nat| rev_w(&a0, &*xs, n);
            assert(xs.bases() == a0.bases());
            assert(un_arg(&*xs));
            let b = choose|b: Seq<u8>| #[trigger] bits_of(b, 0, 8 * b.len() as int) == concat_bits(v)->0
                && xstr_chars(xs.data_stack@.last()->Str_0) == base32::enc(base32::Alphabet::Crockford, b);
            base32::axiom_roundtrip(base32::Alphabet::Crockford, b);
        }
        let r2 = base32hex_decode(xs);
        assert(r2 is Ok ==> xs.data_stack@.last() is Bitstr && xs.data_stack@.last()->Bitstr_0.view() == concat_bits(v)->0);
    }
}
fn lemma_base64_pair(xs: &mut State)
    requires old(xs).inv(), un_arg(old(xs)) ==> item_size(old(xs).data_stack@.last()) <= 0x1000_0000_0000
{
    let ghost v = xs.data_stack@.last();
    let ghost a0: State = *xs;
    let r1 = base64_encode(xs);
    if r1.is_ok() {
        proof {
            let n = choose|n: nat| rev_w(&a0, &*xs, n);
            assert(xs.bases() == a0.bases());
            assert(un_arg(&*xs));
            let b = choose|b: Seq<u8>| #[trigger] bits_of(b, 0, 8 * b.len() as int) == concat_bits(v)->0
                && xstr_chars(xs.data_stack@.last()->Str_0) == base64::enc(b);
            base64::axiom_roundtrip(b);
        }
        let r2 = base64_decode(xs);
        assert(r2 is Ok ==> xs.data_stack@.last() is Bitstr && xs.data_stack@.last()->Bitstr_0.view() == concat_bits(v)->0);
    }
}
fn lemma_zero85_pair(xs: &mut State)
    requires old(xs).inv(), un_arg(old(xs)) ==> item_size(old(xs).data_stack@.last()) <= 0x1000_0000_0000
{
    let ghost v = xs.data_stack@.last();
    let ghost a0: State = *xs;
    let r1 = zero85_encode(xs);
    if r1.is_ok() {
        proof {
            let n = choose|n: nat| rev_w(&a0, &*xs, n);
            assert(xs.bases() == a0.bases());
            assert(un_arg(&*xs));
            let b = choose|b: Seq<u8>| #[trigger] bits_of(b, 0, 8 * b.len() as int) == concat_bits(v)->0
                && xstr_chars(xs.data_stack@.last()->Str_0) == z85::enc(b);
            z85::axiom_roundtrip(b);
        }
        let r2 = zero85_decode(xs);
        assert(r2 is Ok ==> xs.data_stack@.last() is Bitstr && xs.data_stack@.last()->Bitstr_0.view() == concat_bits(v)->0);
    }
}

// the other words of the word table (Rword + same_as)
//@use words.fns ::load#w_open_bitstr
//@use words.fns ::load#w_close_bitstr
//@use words.fns ::load#w__tob
//@use words.fns ::load#w__tokb
//@use words.fns ::load#w__tomb
//@use words.fns ::load#w_seek
//@use words.fns ::load#w_remain
//@use words.fns ::load#w_find
//@use words.fns ::load#w_bits
//@use words.fns ::load#w_bytes
//@use words.fns ::load#w_bitstr_len
//@use words.fns ::load#w_bitstr_append
//@use words.fns ::load#w_bitstr_not
//@use words.fns ::load#w_bitstr_tohex
//@use words.fns ::load#w__tobitstr
//@use words.fns ::load#w_magic
//@use words.fns ::load#w_emit
//@use words.fns ::load#w_nulbytestr
//@use words.fns ::load#w_cstr
//@use words.fns ::load#w_hex_tobitstr
//@use words.fns ::load#w_dump
//@use words.fns ::load#w_dump_at
//@use words.fns ::load#w_bitstr_toutf8
//@use words.fns ::load#w_write_all
//@use words.fns ::load#w_read_all
//@use words.fns ::load#w_bitstr_and
//@use words.fns ::load#w_bitstr_or
//@use words.fns ::load#w_bitstr_xor
//@use words.fns ::load#w_random_bits
//@use words.fns ::load#w_exec_piped
// the data words of the word table (Rword)
//@use words.fns ::load#w_u8
//@use words.fns ::load#w_u8_bang
//@use words.fns ::load#w_u8le
//@use words.fns ::load#w_u8le_bang
//@use words.fns ::load#w_u8be
//@use words.fns ::load#w_u8be_bang
//@use words.fns ::load#w_i8
//@use words.fns ::load#w_i8_bang
//@use words.fns ::load#w_i8le
//@use words.fns ::load#w_i8le_bang
//@use words.fns ::load#w_i8be
//@use words.fns ::load#w_i8be_bang
//@use words.fns ::load#w_u16
//@use words.fns ::load#w_u16_bang
//@use words.fns ::load#w_u16le
//@use words.fns ::load#w_u16le_bang
//@use words.fns ::load#w_u16be
//@use words.fns ::load#w_u16be_bang
//@use words.fns ::load#w_i16
//@use words.fns ::load#w_i16_bang
//@use words.fns ::load#w_i16le
//@use words.fns ::load#w_i16le_bang
//@use words.fns ::load#w_i16be
//@use words.fns ::load#w_i16be_bang
//@use words.fns ::load#w_u32
//@use words.fns ::load#w_u32_bang
//@use words.fns ::load#w_u32le
//@use words.fns ::load#w_u32le_bang
//@use words.fns ::load#w_u32be
//@use words.fns ::load#w_u32be_bang
//@use words.fns ::load#w_i32
//@use words.fns ::load#w_i32_bang
//@use words.fns ::load#w_i32le
//@use words.fns ::load#w_i32le_bang
//@use words.fns ::load#w_i32be
//@use words.fns ::load#w_i32be_bang
//@use words.fns ::load#w_u64
//@use words.fns ::load#w_u64_bang
//@use words.fns ::load#w_u64le
//@use words.fns ::load#w_u64le_bang
//@use words.fns ::load#w_u64be
//@use words.fns ::load#w_u64be_bang
//@use words.fns ::load#w_i64
//@use words.fns ::load#w_i64_bang
//@use words.fns ::load#w_i64le
//@use words.fns ::load#w_i64le_bang
//@use words.fns ::load#w_i64be
//@use words.fns ::load#w_i64be_bang
//@use words.fns ::load#w_f32
//@use words.fns ::load#w_f32_bang
//@use words.fns ::load#w_f32le
//@use words.fns ::load#w_f32le_bang
//@use words.fns ::load#w_f32be
//@use words.fns ::load#w_f32be_bang
//@use words.fns ::load#w_f64
//@use words.fns ::load#w_f64_bang
//@use words.fns ::load#w_f64le
//@use words.fns ::load#w_f64le_bang
//@use words.fns ::load#w_f64be
//@use words.fns ::load#w_f64be_bang
//@use words.fns ::load#w_big
//@use words.fns ::load#w_little
//@use words.fns ::load#w_int
//@use words.fns ::load#w_uint
//@use words.fns ::load#w_float
//@use words.fns ::load#w_int_bang
//@use words.fns ::load#w_uint_bang
//@use words.fns ::load#w_float_bang

// LIFO: close-bitstr after open-bitstr restores the previous input and offset (lemma over the two contracts)
fn lemma_close_restores_open(xs: &mut State, s: Bitstr)
    requires old(xs).inv(), old(xs).cursor_ok(), old(xs).stash_ok(), s.e() < usize::MAX
    ensures true
{
    let ghost a: State = *xs;
    let r1 = open_bitstr(xs, s);
    if r1.is_ok() {
        let r2 = word_close_bitstr(xs);
        assert(r2 is Ok);
        assert(xs.heap@[xs.in_ref()] == strip(a.heap@[a.in_ref()]));
        assert(xs.heap@[xs.off_ref()] == a.heap@[a.off_ref()]);
        assert(xs.stash() =~= a.stash());
    }
}

// R14: the number codecs of src/bitstr.rs, decided by the Kani families of C05; here their
// contract is "a function of the bit sequence and the byte order"
#[verifier::external_body] fn verif_to_uint(s: &Bitstr, order: Byteorder) -> (r: u128)
    requires s.view().len() <= 128 ensures r == uint_of(s.view(), order), s.view().len() <= 127 ==> r <= i128::MAX { unimplemented!() }
#[verifier::external_body] fn verif_to_int(s: &Bitstr, order: Byteorder) -> (r: i128)
    requires s.view().len() <= 128 ensures r == int_of(s.view(), order) { unimplemented!() }
pub uninterp spec fn bits_from_int(v: i128, n: int, order: Byteorder) -> Seq<bool>;
#[verifier::external_body] fn verif_from_int(v: i128, n: usize, order: Byteorder) -> (r: Bitstr)
    ensures r.view() == bits_from_int(v, n as int, order), r.view().len() == n, r.s() == 0 { unimplemented!() }
#[verifier::external_body] fn verif_to_f32(s: &Bitstr, order: Byteorder) -> (r: f32) ensures r == f32_of(s.view(), order) { unimplemented!() }
#[verifier::external_body] fn verif_to_f64(s: &Bitstr, order: Byteorder) -> (r: f64) ensures r == f64_of(s.view(), order) { unimplemented!() }
pub uninterp spec fn bits_from_f32(v: f32, order: Byteorder) -> Seq<bool>;
pub uninterp spec fn bits_from_f64(v: f64, order: Byteorder) -> Seq<bool>;
pub uninterp spec fn f64_to_f32_spec(x: f64) -> f32;
#[verifier::external_body] fn f64_to_f32(x: f64) -> (r: f32) ensures r == f64_to_f32_spec(x) { x as f32 }
#[verifier::external_body] fn verif_from_f32(v: f32, order: Byteorder) -> (r: Bitstr)
    ensures r.view() == bits_from_f32(v, order), r.view().len() == 32 { unimplemented!() }
#[verifier::external_body] fn verif_from_f64(v: f64, order: Byteorder) -> (r: Bitstr)
    ensures r.view() == bits_from_f64(v, order), r.view().len() == 64 { unimplemented!() }
// `==` on cells: proved against cell_eq in unit collections; here only the comparison with an integer is needed
pub uninterp spec fn cell_eq_u(a: Cell, b: Cell) -> bool;
impl vstd::std_specs::cmp::PartialEqSpecImpl for Cell {
    open spec fn obeys_eq_spec() -> bool { true }
    open spec fn eq_spec(&self, other: &Self) -> bool { cell_eq_u(*self, *other) }
}
impl PartialEq for Cell { #[verifier::external_body] fn eq(&self, other: &Self) -> (r: bool) ensures r == cell_eq_u(*self, *other) { unimplemented!() } }
#[verifier::external_body] proof fn axiom_cell_eq_nil(a: Cell) ensures cell_eq_u(a, Cell::Nil) == (strip(a) is Nil) {}
#[verifier::external_body] proof fn axiom_cell_eq_int(a: Cell, k: i128) ensures cell_eq_u(a, Cell::Int(k)) == (strip(a) == Cell::Int(k)) {}
// R3k: the tag key constant OFFSET_LIT (a string literal cell)
#[verifier::external_body] fn verif_offset_lit() -> (r: Cell) ensures r == offset_lit() { unimplemented!() }
#[verifier::external_body] fn verif_len_lit() -> (r: Cell) ensures r == len_lit() { unimplemented!() }
#[verifier::external_body] fn verif_big_lit() -> (r: Cell) ensures r == big_lit() { unimplemented!() }

// small State getters a changed body may start to use (assumed renderings of verified contracts; unit state proves them)
impl State {
//@use state.fns State::data_depth assumed
//@use state.fns State::top_data assumed
//@use state.fns State::is_running assumed
//@use state.fns State::ip assumed
//@use state.fns State::is_recording assumed
}

} // verus!
fn main() {}
