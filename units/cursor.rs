#![feature(allocator_api)]
#![allow(unused_imports, dead_code, unused_variables, unused_mut, unused_assignments, non_camel_case_types)]
use vstd::prelude::*;
use std::rc::Rc;
use std::borrow::Cow;
use std::ops::Range;
use std::cmp::Ordering;
use vstd::std_specs::cmp::PartialOrdSpec;
verus! {

global size_of usize == 8;

//@include preamble/xbitstr_real.rs
//@include preamble/state_types.rs
//@include spec/cell_specs.rs
//@include spec/xmap_specs.rs
//@include spec/machine.rs
//@include spec/state_specs.rs
//@include spec/arith_specs.rs
//@include spec/cursor_specs.rs

pub type Xstate = State;
#[verifier::external_body] fn verif_lit_xstr() -> Xstr { unimplemented!() }
impl Xerr {
    #[verifier::external_body] pub fn out_of_range(idx: usize, range: Range<usize>) -> Xerr { unimplemented!() }
}

//@use cell.fns ::cell_type_error assumed
impl Cell {
//@use cell.fns Cell::value assumed
//@use cell.fns Cell::to_usize assumed
//@use cell.fns Cell::bitstr assumed
//@use cell.fns Cell::to_bitstr assumed
}
impl vstd::std_specs::convert::FromSpecImpl<usize> for Cell {
    open spec fn obeys_from_spec() -> bool { true }
    open spec fn from_spec(x: usize) -> Cell { Cell::Int(x as i128) }
}
impl From<usize> for Cell {
//@use cell.fns "impl From<usize> for Cell"::from
}
impl vstd::std_specs::convert::FromSpecImpl<Xbitstr> for Cell {
    open spec fn obeys_from_spec() -> bool { true }
    open spec fn from_spec(x: Xbitstr) -> Cell { Cell::Bitstr(x) }
}
impl From<Xbitstr> for Cell {
//@use cell.fns "impl From<Xbitstr> for Cell"::from
}

impl State {
//@use state.fns State::push_data assumed
//@use state.fns State::pop_data assumed
//@use state.fns State::get_var assumed
//@use state.fns State::set_var assumed
}

//@use cursor.fns ::current_input
//@use cursor.fns ::current_offset
//@use cursor.fns ::move_offset_checked
//@use cursor.fns ::peek_bits
//@use cursor.fns ::rest_bits
//@use cursor.fns ::read_bits
//@use cursor.fns ::word_seek
//@use cursor.fns ::word_remain
//@use cursor.fns ::word_bitstr
//@use cursor.fns ::word_bytes

} // verus!
fn main() {}
