
#[cfg(test)]
mod verif_d17_demo {
    use super::*;
    // C12: keys of different types never collide; one value per key under equal?
    #[test]
    fn map_keys_of_different_types_do_not_collide() {
        let mut xs = State::boot().unwrap();
        // map literal: { value key ... }
        xs.eval("{ \"int\" 1 \"str\" \"a\" } length").unwrap_or(());
        let mut xs = State::boot().unwrap();
        xs.eval("{ 10 1 20 \"a\" } \"a\" get").unwrap();
        assert_eq!(xs.pop_data().unwrap(), Cell::from(20usize));
        xs.eval("{ 10 1 20 \"a\" } 1 get").unwrap();
        assert_eq!(xs.pop_data().unwrap(), Cell::from(10usize), "key 1 and key \"a\" are different keys");
    }
    #[test]
    fn vector_keys_are_distinguished() {
        let mut xs = State::boot().unwrap();
        xs.eval("{ 10 [ 1 ] 20 [ 2 ] } [ 1 ] get").unwrap();
        assert_eq!(xs.pop_data().unwrap(), Cell::from(10usize));
    }
}
