// Observation (not an obligation): recursion depth is not modelled by Verus or Kani.  A vector nested 200000 deep - built
// by the loop below, well inside any instruction limit one would set - overflows the native stack when it is dropped,
// printed, compared or flattened (recursive Drop of the Rc chain, fmt::Debug, PartialEq, bitstr_concat): the process aborts
// ("thread 'main' has overflowed its stack").  Save as examples/deep.rs and run: cargo run --example deep
use xeh::prelude::*;
fn main() {
    let mut xs = Xstate::boot().unwrap();
    xs.intercept_stdout(true);
    let r = xs.eval("[ ] 200000 0 do 1 collect loop drop");
    println!("eval -> {:?}", r.is_ok());
}
