// D25: Lex::next_nonws skipped at most ONE white-space/comment token; `let` followed by white space and then a
// comment handed Tok::Comment to the pattern compiler, whose arms for it are unreachable!() (append to
// src/state.rs, `cargo test d25`)
#[cfg(test)]
mod d25 {
    use super::*;
    #[test]
    fn d25_comment_after_let() {
        let mut xs = State::boot().unwrap();
        // before the fix: panic "internal error: entered unreachable code" in build_let_match
        let r = std::panic::catch_unwind(std::panic::AssertUnwindSafe(|| xs.eval("1 let \\ note\n a")));
        assert!(r.is_ok());
        let mut xs = State::boot().unwrap();
        xs.eval("1 let \\ note\n a\n a").unwrap();
        assert_eq!(Ok(Cell::from(1usize)), xs.pop_data());
    }
}
