
#[cfg(test)]
mod verif_d12_demo {
    use super::*;
    // A source rejected while it is compiled must have no effect on what is submitted afterwards.
    #[test]
    fn failed_compile_is_not_executed_later() {
        // REPL style: compile, then run
        let mut xs = State::boot().unwrap();
        xs.set_insn_limit(Some(10_000)).unwrap();
        assert!(xs.compile("111 unknown-word-xyz 222").is_err());
        xs.compile("5").unwrap();
        xs.run().unwrap();
        assert_eq!(xs.data_depth(), 1, "only the second line may have run");
        assert_eq!(xs.get_data(0), Some(&Cell::from(5usize)));
    }
    #[test]
    fn failed_build_restores_mode_and_nesting() {
        let mut xs = State::boot().unwrap();
        xs.eval("1 2").unwrap();
        let depth = xs.nested.len();
        assert!(xs.eval("3 if 4").is_err());           // unbalanced structure
        assert!(xs.eval("#( 1 0 / #)").is_err());      // error inside a meta block
        assert_eq!(xs.nested.len(), depth, "nesting is back to what it was");
        assert!(xs.ctx.mode == ContextMode::Eval);
        assert_eq!(xs.flow_stack.len(), 0);
        assert_eq!(xs.input.len(), 0);
        xs.eval("+").unwrap();                         // values on the stack stay reachable
        assert_eq!(xs.get_data(0), Some(&Cell::from(3usize)));
        // definitions and variables compile normally afterwards
        xs.eval(": f 10 ; var v f").unwrap();
        assert_eq!(xs.get_data(0), Some(&Cell::from(10usize)));
    }
    #[test]
    fn failed_definition_is_forgotten() {
        let mut xs = State::boot().unwrap();
        xs.set_insn_limit(Some(10_000)).unwrap();
        assert!(xs.eval(": g 1 2 oops-unknown ;").is_err());
        // as if never submitted: g is not defined
        assert!(xs.eval("g").is_err());
        assert_eq!(xs.data_depth(), 0);
    }
}
