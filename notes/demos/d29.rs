// D29: `: NAME` inside enum .. endenum gives the field the previous value + 1, unchecked (append to src/state.rs, `cargo test d29`)
#[cfg(test)]
mod d29 {
    use super::*;
    #[test]
    fn d29_enum_overflow() {
        let mut xs = State::boot().unwrap();
        // before the fix: panic "attempt to add with overflow" (checked build), B == i128::MIN otherwise
        let r = std::panic::catch_unwind(std::panic::AssertUnwindSafe(|| xs.eval("enum T 170141183460469231731687303715884105727 = A : B endenum")));
        assert!(r.is_ok());
        assert_eq!(Err(Xerr::IntegerOverflow), r.unwrap());
        let mut xs = State::boot().unwrap();
        xs.eval("enum T 5 = A : B endenum B").unwrap();
        assert_eq!(Ok(Cell::from(6usize)), xs.pop_data());
    }
}
