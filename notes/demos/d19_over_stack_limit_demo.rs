
#[cfg(test)]
mod verif_d19_demo {
    use super::*;
    // `over` that fails on the stack limit while recording must not leave a reverse entry behind
    #[test]
    fn failed_over_leaves_no_reverse_entry() {
        let mut xs = State::boot().unwrap();
        xs.set_recording_enabled(true);
        xs.eval("1 2").unwrap();
        xs.set_stack_limit(Some(2)).unwrap();
        let before = format!("{:?}", xs.data_stack);
        let log_len = xs.reverse_log.as_ref().unwrap().len();
        assert!(xs.eval("over").is_err());
        xs.set_stack_limit(None).unwrap();
        // the failed instruction changed nothing, so nothing of it may be undone
        while xs.reverse_log.as_ref().unwrap().len() > log_len {
            xs.rnext().unwrap();
        }
        assert_eq!(format!("{:?}", xs.data_stack), before);
    }
}
