
#[cfg(test)]
mod verif_d21_demo {
    use super::*;
    // a read that fails (here: on the stack limit) leaves the offset where it was
    #[test]
    fn failed_read_does_not_move_the_offset() {
        let mut xs = State::boot().unwrap();
        xs.eval("[ 1 2 3 4 ] >bitstr open-bitstr 7 8").unwrap();
        xs.set_stack_limit(Some(2)).unwrap();
        assert!(xs.eval("u8").is_err());
        xs.set_stack_limit(None).unwrap();
        xs.eval("drop drop offset").unwrap();
        assert_eq!(xs.pop_data().unwrap(), Cell::from(0usize));
        xs.eval("u8").unwrap();
        assert_eq!(xs.pop_data().unwrap(), Cell::from(1usize));
    }
}
