// D22: token_location panics on an empty source text (append to src/state.rs, `cargo test d22`)
#[cfg(test)]
mod d22 {
    use super::*;
    #[test]
    fn d22_empty_source_location() {
        let mut xs = State::boot().unwrap();
        // a word defined through the API before any text was read carries the default (empty) token
        xs.defwordself("w", |xs| { let _ = xs.pop_data()?; Err(Xerr::ExpectingName) }, Cell::Nil).unwrap();
        xs.eval("").unwrap();           // an empty line: now a source with empty text exists
        let r = xs.eval("w");           // run-time error inside `w`: its location is looked up
        assert!(r.is_err());            // before the fix: panic "end byte index 1 is out of bounds of ``"
        let _ = xs.pretty_error();
    }
}
