// D26: str>number handed the radix of the string's `#fmt` tag - any number the user stored - to i128::from_str_radix,
// which panics outside 2..=36 (append to src/state.rs, `cargo test d26`)
#[cfg(test)]
mod d26 {
    use super::*;
    #[test]
    fn d26_str_to_num_radix() {
        let mut xs = State::boot().unwrap();
        // before the fix: panic "from_ascii_radix: radix must lie in the range `[2, 36]`"
        let r = std::panic::catch_unwind(std::panic::AssertUnwindSafe(|| xs.eval("\"12\" 0 \"#fmt\" insert-tag str>number")));
        assert!(r.is_ok());
        assert!(r.unwrap().is_err());
        let mut xs = State::boot().unwrap();
        xs.eval("\"12\" ^hex str>number").unwrap();
        assert_eq!(Ok(Cell::from(18usize)), xs.pop_data());
    }
}
