// D27: the raw value of the `#fmt` tag is the WIDTH argument of format!("{:1$?}", ..) in State::format_cell, and std
// panics when a width exceeds u16::MAX (append to src/state.rs, `cargo test d27`)
#[cfg(test)]
mod d27 {
    use super::*;
    #[test]
    fn d27_fmt_tag_width() {
        let mut xs = State::boot().unwrap();
        xs.intercept_stdout(true);
        // before the fix: panic "Formatting argument out of range" at src/state.rs (format_cell)
        let r = std::panic::catch_unwind(std::panic::AssertUnwindSafe(|| xs.eval("42 70000 \"#fmt\" insert-tag print")));
        assert!(r.is_ok());
        let mut xs = State::boot().unwrap();
        xs.intercept_stdout(true);
        xs.eval("255 ^hex print").unwrap();
        assert_eq!(Some("0xff".to_string()), xs.read_stdout());
    }
}
