// D23: `emit` adds the emitted length to output-length unchecked (append to src/bitstr_ext.rs, `cargo test d23`)
#[cfg(test)]
mod d23 {
    use super::*;
    #[test]
    fn d23_output_length_overflow() {
        let mut xs = Xstate::boot().unwrap();
        xs.intercept_output(true).unwrap();
        // before the fix: panic "attempt to add with overflow" (checked build), wrapped counter otherwise
        let r = xs.eval("18446744073709551615 ! output-length |ff| emit");
        assert!(r.is_err());
    }
}
