// D28: the caret line of an error location was printed with the COLUMN as a format width; std panics above u16::MAX
// (append to src/state.rs, `cargo test d28`)
#[cfg(test)]
mod d28 {
    use super::*;
    #[test]
    fn d28_caret_width() {
        let mut xs = State::boot().unwrap();
        let src = format!("{}foo", " ".repeat(70000));
        assert!(xs.eval(&src).is_err());
        // before the fix: panic "Formatting argument out of range" at src/lex.rs (TokenLocation::fmt)
        let r = std::panic::catch_unwind(std::panic::AssertUnwindSafe(|| xs.pretty_error()));
        assert!(r.is_ok());
        let mut xs = State::boot().unwrap();
        assert!(xs.eval("  foo").is_err());
        let s = xs.pretty_error().unwrap();
        assert_eq!("--^", s.lines().last().unwrap());
    }
}
