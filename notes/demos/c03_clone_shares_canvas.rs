// C03 observation: a cloned interpreter shares the d2 canvas (append to src/d2_plugin.rs, `cargo test c03_clone`)
// FAILS on the current tree: left 5, right 2
#[cfg(test)]
mod c03_observation {
    use super::*;
    #[test]
    fn c03_clone_shares_canvas() {
        let mut xs = Xstate::boot().unwrap();
        self::load(&mut xs).unwrap();          // what the REPL does at start-up (repl.rs:317)
        xs.eval("2 2 d2-resize").unwrap();
        let mut snap = xs.clone();             // /snapshot
        xs.eval("5 7 d2-resize").unwrap();     // later activity on the original ...
        snap.eval("d2-width").unwrap();        // ... is visible in the snapshot
        let w = snap.pop_data().unwrap();
        assert_eq!(w, Cell::from(2usize), "the snapshot's canvas changed with the original");
    }
}
