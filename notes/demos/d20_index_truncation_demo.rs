
#[cfg(test)]
mod verif_d20_demo {
    use super::*;
    #[test]
    fn huge_index_is_out_of_range_not_truncated() {
        let mut xs = State::boot().unwrap();
        // 2^64 is not index 0
        assert!(xs.eval("[ 1 2 3 ] 18446744073709551616 nth").is_err());
        let mut xs = State::boot().unwrap();
        assert!(xs.eval("[ 1 2 3 ] 18446744073709551616 get").is_err());
    }
}
