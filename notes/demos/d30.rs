// D30: d2-data / d2-data! computed `y * width + x` unchecked (append to src/state.rs, `cargo test d30`)
#[cfg(test)]
mod d30 {
    use super::*;
    #[test]
    fn d30_d2_index() {
        for w in ["d2-data!", "d2-data"] {
            let mut xs = State::boot().unwrap();
            crate::d2_plugin::load(&mut xs).unwrap();
            // before the fix: panic "attempt to multiply with overflow" (checked build), pixel 0 addressed otherwise
            let src = format!("2 2 d2-resize 0 9223372036854775808 {}", w);
            let r = std::panic::catch_unwind(std::panic::AssertUnwindSafe(|| xs.eval(&src)));
            assert!(r.is_ok());
            assert_eq!(Err(Xerr::IntegerOverflow), r.unwrap());
        }
    }
}
