
#[cfg(test)]
mod verif_d18_demo {
    use super::*;
    #[test]
    fn get_insert_remove_ignore_tags() {
        let mut xs = State::boot().unwrap();
        xs.eval("{ 1 \"k\" } \"t\" 7 insert-tag \"k\" get").unwrap();
        assert_eq!(xs.pop_data().unwrap(), Cell::from(1usize));
        xs.eval("{ 1 \"k\" } \"t\" 7 insert-tag 2 \"j\" insert \"j\" get").unwrap();
        assert_eq!(xs.pop_data().unwrap(), Cell::from(2usize));
        xs.eval("{ 1 \"k\" } \"t\" 7 insert-tag \"k\" remove \"k\" get").unwrap();
        assert_eq!(xs.pop_data().unwrap(), Cell::Nil);
        xs.eval("[ 5 6 ] \"t\" 7 insert-tag 1 get").unwrap();
        assert_eq!(xs.pop_data().unwrap(), Cell::from(6usize));
    }
}
