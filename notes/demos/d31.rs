// D31: the printer elides a long string at BYTE 75; str::split_at panics inside a multi-byte character
// (append to src/state.rs, `cargo test d31`)
#[cfg(test)]
mod d31 {
    use super::*;
    #[test]
    fn d31_elide_boundary() {
        let mut xs = State::boot().unwrap();
        let src = format!("\"{}{}\" error", "a".repeat(74), "é".repeat(3));
        assert!(xs.eval(&src).is_err());
        // before the fix: panic "end byte index 75 is not a char boundary"
        let r = std::panic::catch_unwind(std::panic::AssertUnwindSafe(|| xs.pretty_error()));
        assert!(r.is_ok());
        let text = r.unwrap().unwrap();
        assert!(text.starts_with(&format!("\"{} ...", "a".repeat(74))));
    }
}
