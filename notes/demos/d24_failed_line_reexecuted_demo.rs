// D24 (known finding, C10 last clause): a line that fails at run time in compile + run style is re-executed by the
// next run (append to src/state.rs, `cargo test c10_failed_line`).  FAILS on the current tree.
#[cfg(test)]
mod c10_runtime_clause {
    use super::*;
    #[test]
    fn c10_failed_line_is_reexecuted() {
        let mut xs = State::boot().unwrap();
        xs.compile("1 0 / 7").unwrap();
        assert!(xs.run().is_err());                  // the line fails at run time (division by zero)
        xs.compile("5").unwrap();                    // a later line
        let r = xs.run();                            // ... starts again ON the failed `/`: Err(StackUnderflow)
        assert!(r.is_ok(), "the later line re-executed the failed one");
    }
}
