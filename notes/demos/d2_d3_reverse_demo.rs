
#[cfg(test)]
mod verif_d2_demo {
    use super::*;
    fn snap(xs: &State) -> String {
        format!("ip={} ds={:?} rs={:?} loops={:?}", xs.ip(), xs.data_stack, xs.return_stack, xs.loops)
    }
    #[test]
    fn reverse_restores_reinitialised_local() {
        let mut xs = State::boot().unwrap();
        xs.set_recording_enabled(true);
        xs.compile(": f 3 0 do I local x loop ; f").unwrap();
        let mut trace = vec![];
        for _ in 0..60 {
            trace.push(snap(&xs));
            if !xs.is_running() { break; }
            xs.next().unwrap();
        }
        for i in (0..trace.len() - 1).rev() {
            xs.rnext().unwrap();
            assert_eq!(snap(&xs), trace[i], "state after stepping back to step {}", i);
        }
    }
    #[test]
    fn reverse_restores_foreach_items() {
        let mut xs = State::boot().unwrap();
        xs.set_recording_enabled(true);
        xs.compile("[ 5 6 ] foreach I drop loop").unwrap();
        let mut trace = vec![];
        for _ in 0..60 {
            trace.push(snap(&xs));
            if !xs.is_running() { break; }
            xs.next().unwrap();
        }
        for i in (0..trace.len() - 1).rev() {
            xs.rnext().unwrap();
            assert_eq!(snap(&xs), trace[i], "state after stepping back to step {}", i);
        }
    }
}
