use vstd::prelude::*;
verus! {
pub enum Cell { Nil, Int(i128), Flag(bool) }

pub open spec fn cell_eq_spec(a: Cell, b: Cell) -> bool {
    match (a, b) {
        (Cell::Nil, Cell::Nil) => true,
        (Cell::Int(x), Cell::Int(y)) => x == y,
        (Cell::Flag(x), Cell::Flag(y)) => x == y,
        _ => false,
    }
}

impl vstd::std_specs::cmp::PartialEqSpecImpl for Cell {
    open spec fn obeys_eq_spec() -> bool { true }
    open spec fn eq_spec(&self, other: &Self) -> bool { cell_eq_spec(*self, *other) }
}

impl PartialEq for Cell {
    fn eq(&self, other: &Self) -> (r: bool)
        ensures r == cell_eq_spec(*self, *other)
    {
        match (self, other) {
            (Cell::Nil, Cell::Nil) => true,
            (Cell::Int(a), Cell::Int(b)) => a == b,
            (Cell::Flag(a), Cell::Flag(b)) => a == b,
            _ => false,
        }
    }
}

fn user(a: &Cell, b: &Cell) -> (r: bool)
    ensures r == cell_eq_spec(*a, *b)
{
    a == b
}
fn user2(a: Cell) -> (r: bool)
    ensures r == (a is Nil)
{
    a == Cell::Nil
}
}
fn main() {}
