use vstd::prelude::*;
use std::rc::Rc;
use std::ops::Range;
verus! {

pub assume_specification<Idx>[ Range::<Idx>::is_empty ](r: &Range<Idx>) -> (b: bool)
    where Idx: core::cmp::PartialOrd + core::cmp::PartialOrd;
// ---------- opaque leaf types ----------
#[verifier::external_body] pub struct Xstr { _p: u8 }
impl Clone for Xstr { #[verifier::external_body] fn clone(&self) -> (r: Self) ensures r == *self { unimplemented!() } }
#[verifier::external_body] pub struct Xsubstr { _p: u8 }
impl Clone for Xsubstr { #[verifier::external_body] fn clone(&self) -> (r: Self) ensures r == *self { unimplemented!() } }
impl Default for Xsubstr { #[verifier::external_body] fn default() -> Self { unimplemented!() } }
#[verifier::external_body] pub struct Xvec { _p: u8 }
impl Clone for Xvec { #[verifier::external_body] fn clone(&self) -> (r: Self) ensures r == *self { unimplemented!() } }
impl Default for Xvec { #[verifier::external_body] fn default() -> (r: Self) ensures r@ == Seq::<Cell>::empty() { unimplemented!() } }
impl Xvec {
    pub uninterp spec fn view(&self) -> Seq<Cell>;
    #[verifier::external_body] pub fn len(&self) -> (r: usize) ensures r == self@.len() { unimplemented!() }
    #[verifier::external_body] pub fn push_back_mut(&mut self, c: Cell) ensures final(self)@ == old(self)@.push(c) { unimplemented!() }
    #[verifier::external_body] pub fn set_mut(&mut self, i: usize, c: Cell) -> (r: bool) ensures r == (i < old(self)@.len()), r ==> final(self)@ == old(self)@.update(i as int, c), !r ==> final(self)@ == old(self)@ { unimplemented!() }
    #[verifier::external_body] pub fn get(&self, i: usize) -> (r: Option<&Cell>) ensures i < self@.len() ==> r == Some(&self@[i as int]), i >= self@.len() ==> r is None { unimplemented!() }
    #[verifier::external_body] pub fn drop_last_mut(&mut self) -> (r: bool) ensures r == (old(self)@.len() > 0), r ==> final(self)@ == old(self)@.drop_last() { unimplemented!() }
    #[verifier::external_body] pub fn new() -> (r: Xvec) ensures r@ == Seq::<Cell>::empty() { unimplemented!() }
}
#[verifier::external_body] pub struct Xmap { _p: u8 }
#[verifier::external_body] pub struct Xbitstr { _p: u8 }
#[verifier::external_body] pub struct Xanyrc { _p: u8 }
#[verifier::external_body] #[derive(Clone, Copy)] pub struct XfnPtr { _p: u8 }
#[verifier::external_body] pub struct CellBox { _p: u8 }
impl CellBox { #[verifier::external_body] fn as_ref(&self) -> &Cell { unimplemented!() } }
pub enum Xfn {
    Interp(usize),
    Native(XfnPtr),
}
pub type Xint = i128;
pub type Xreal = f64;

pub struct WithTag { tags: Xmap, value: Cell }
pub enum Cell {
    Nil, Flag(bool), Int(Xint), Real(Xreal), Str(Xstr), Vector(Xvec), Map(Xmap), Fun(Xfn),
    Bitstr(Xbitstr), AnyRc(Xanyrc), WithTag(Rc<WithTag>),
}
impl Clone for Cell { #[verifier::external_body] fn clone(&self) -> (r: Self) ensures r == *self { unimplemented!() } }
pub const NIL: Cell = Cell::Nil;
impl Cell {
    #[verifier::external_body] pub fn cond_true(&self) -> Xresult1<bool> { unimplemented!() }
    #[verifier::external_body] pub fn to_isize(&self) -> Xresult1<isize> { unimplemented!() }
    #[verifier::external_body] pub fn from_xstr(x: Xstr) -> Cell { unimplemented!() }
    #[verifier::external_body] pub fn from_f64(x: f64) -> Cell { unimplemented!() }
    #[verifier::external_body] pub fn from_i64(x: i64) -> Cell { unimplemented!() }
    #[verifier::external_body] pub fn cell_eq(&self, o: &Cell) -> bool { unimplemented!() }
}

#[derive(Clone, Copy)]
pub struct CellRef(usize);

pub enum Xerr {
    UnknownWord(Xstr), StackUnderflow, ReturnStackUnderflow, LoopStackUnderflow, InternalError,
    ErrorMsg(Xstr), ControlFlowError { msg: Xstr },
}
pub type Xresult = Result<(), Xerr>;
pub type Xresult1<T> = Result<T, Xerr>;
pub const OK: Xresult = Ok(());
impl Xerr {
    #[verifier::external_body] pub fn local_out_of_bounds(idx: usize) -> Xerr { unimplemented!() }
    #[verifier::external_body] pub fn unbalanced_else() -> Xerr { unimplemented!() }
    #[verifier::external_body] pub fn unbalanced_then() -> Xerr { unimplemented!() }
    #[verifier::external_body] pub fn unbalanced_endcase() -> Xerr { unimplemented!() }
    #[verifier::external_body] pub fn unbalanced_endof() -> Xerr { unimplemented!() }
    #[verifier::external_body] pub fn unbalanced_until() -> Xerr { unimplemented!() }
    #[verifier::external_body] pub fn unbalanced_while() -> Xerr { unimplemented!() }
    #[verifier::external_body] pub fn unbalanced_repeat() -> Xerr { unimplemented!() }
    #[verifier::external_body] pub fn unbalanced_loop() -> Xerr { unimplemented!() }
    #[verifier::external_body] pub fn unbalanced_break() -> Xerr { unimplemented!() }
}

// ---------- extracted types: src/opcodes.rs, src/state.rs ----------
#[derive(Clone, Copy)]
pub struct RelativeJump(i32);

impl RelativeJump {
    pub fn from_to(origin: usize, dest: usize) -> (r: Self)
        requires origin < 0x4000_0000, dest < 0x4000_0000
    {
        let i = if origin > dest {
            -((origin - dest) as isize)
        } else {
            (dest - origin) as isize
        };
        if i == 0 {
            Self(1)
        } else {
            Self(i as i32)
        }
    }

    pub fn uninit() -> Self {
        RelativeJump(0)
    }

    pub fn calculate(&self, ip: usize) -> (r: usize)
        requires ip < 0x4000_0000
    {
        (ip as isize + self.0 as isize) as usize
    }
}

pub enum Opcode {
    Nop,
    Call(usize),
    Resolve(Xstr),
    NativeCall(XfnPtr),
    Ret,
    JumpIf(RelativeJump),
    JumpIfNot(RelativeJump),
    Jump(RelativeJump),
    Do(RelativeJump),
    Break(RelativeJump),
    Loop(RelativeJump),
    CaseOf(RelativeJump),
    Load(CellRef),
    LoadNil,
    LoadI64(i64),
    LoadF64(f64),
    LoadStr(Xstr),
    LoadCell(CellBox),
    Store(CellRef),
    InitLocal(usize),
    LoadLocal(usize),
}

pub enum Flow {
    If(usize),
    Else(usize),
    Begin(usize),
    While(usize),
    Break(usize),
    Case,
    CaseOf(usize),
    CaseEndOf(usize),
    Vec,
    Map,
    Tags,
    Do { for_org: usize, body_org: usize },
}

pub struct Loop {
    items: Cell,
    range: Range<isize>,
}

pub struct Frame {
    fn_addr: usize,
    return_to: usize,
    locals: Xvec,
}

pub enum Entry {
    Constant(Cell),
    Variable(CellRef),
    Function {
        immediate: bool,
        xf: Xfn,
        len: Option<usize>,
    },
}

struct Context {
    ds_len: usize,
    rs_len: usize,
    fs_len: usize,
    ls_len: usize,
    ip: usize,
}

pub struct State {
    code: Vec<Opcode>,
    debug_map: Vec<Xsubstr>,
    data_stack: Vec<Cell>,
    return_stack: Vec<Frame>,
    flow_stack: Vec<Flow>,
    loops: Vec<Loop>,
    ctx: Context,
    last_token: Option<Xsubstr>,
}

#[verifier::external_body]
fn call_native(x: XfnPtr, xs: &mut State) -> Xresult { unimplemented!() }

#[verifier::external_body]
fn do_init(xs: &mut State) -> Xresult1<Loop> { unimplemented!() }


impl State {
    #[verifier::external_body] pub fn ip(&self) -> usize { unimplemented!() }
    #[verifier::external_body] fn insn_meter_increase(&mut self) -> Xresult { unimplemented!() }
    #[verifier::external_body] fn next_ip(&mut self) { unimplemented!() }
    #[verifier::external_body] fn set_ip(&mut self, new_ip: usize) { unimplemented!() }
    #[verifier::external_body] pub fn pop_data(&mut self) -> Xresult1<Cell> { unimplemented!() }
    #[verifier::external_body] pub fn push_data(&mut self, c: Cell) -> Xresult { unimplemented!() }
    #[verifier::external_body] pub fn top_data(&self) -> Xresult1<&Cell> { unimplemented!() }
    #[verifier::external_body] fn push_return(&mut self, f: Frame) -> Xresult { unimplemented!() }
    #[verifier::external_body] fn pop_return(&mut self) -> Xresult1<Frame> { unimplemented!() }
    #[verifier::external_body] fn top_frame(&mut self) -> Xresult1<&mut Frame> { unimplemented!() }
    #[verifier::external_body] fn dict_entry(&self, name: &Xstr) -> Option<&Entry> { unimplemented!() }
    #[verifier::external_body] fn load_value_opcode(&self, val: Cell) -> Opcode { unimplemented!() }
    #[verifier::external_body] pub fn get_var(&self, cref: CellRef) -> Xresult1<&Cell> { unimplemented!() }
    #[verifier::external_body] pub fn set_var(&mut self, cref: CellRef, val: Cell) -> Xresult { unimplemented!() }
    #[verifier::external_body] pub fn is_recording(&self) -> bool { unimplemented!() }
    #[verifier::external_body] fn add_reverse_step_droplocal(&mut self, idx: usize) { unimplemented!() }
    #[verifier::external_body] fn push_loop(&mut self, l: Loop) -> Xresult { unimplemented!() }
    #[verifier::external_body] fn pop_loop(&mut self) -> Xresult1<Loop> { unimplemented!() }
    #[verifier::external_body] fn loop_next(&mut self) -> Xresult1<bool> { unimplemented!() }

    fn code_origin(&self) -> usize {
        self.code.len()
    }

    fn code_emit(&mut self, op: Opcode) -> Xresult {
        let at = self.code.len();
        let len = self.debug_map.len();
        let loc = self.last_token.clone().unwrap_or_default();
        if at < len {
            self.debug_map[at] = loc;
        } else if at == len {
            self.debug_map.push(loc);
        } else {
            panic!("non-linear allocation {}/{}", at, len);
        }
        self.code.push(op);
        OK
    }

    fn backpatch(&mut self, at: usize, op: Opcode) -> Xresult {
        self.code[at] = op;
        OK
    }

    fn backpatch_jump(&mut self, at: usize, offs: RelativeJump) -> Xresult {
        let insn = match self.code.get(at).ok_or_else(|| Xerr::InternalError)? {
            Opcode::Jump(_) => Opcode::Jump(offs),
            Opcode::JumpIf(_) => Opcode::JumpIf(offs),
            Opcode::JumpIfNot(_) => Opcode::JumpIfNot(offs),
            Opcode::CaseOf(_) => Opcode::CaseOf(offs),
            _ => panic!("not a jump instruction at={}", at),
        };
        self.backpatch(at, insn)
    }

    fn pop_flow(&mut self) -> Option<Flow> {
        if self.flow_stack.len() > self.ctx.fs_len {
            self.flow_stack.pop()
        } else {
            None
        }
    }

    fn push_flow(&mut self, flow: Flow) -> Xresult {
        self.flow_stack.push(flow);
        OK
    }

    #[verifier::exec_allows_no_decreases_clause]
    fn fetch_and_run(&mut self) -> Xresult {
        let ip = self.ip();
        self.insn_meter_increase()?;
        match &self.code[ip] {
            Opcode::Nop => {
                self.next_ip();
            }
            Opcode::Jump(rel) => {
                let new_ip = rel.calculate(ip);
                self.set_ip(new_ip);
            }
            Opcode::JumpIf(rel) => {
                let new_ip = rel.calculate(ip);
                if self.pop_data()?.cond_true()? {
                    self.set_ip(new_ip);
                } else {
                    self.next_ip();
                }
            }
            Opcode::JumpIfNot(rel) => {
                let new_ip = rel.calculate(ip);
                if !self.pop_data()?.cond_true()? {
                    self.set_ip(new_ip);
                } else {
                    self.next_ip();
                }
            }
            Opcode::CaseOf(rel) => {
                let new_ip = rel.calculate(ip);
                let a = self.pop_data()?;
                let b = self.top_data()?;
                if a.cell_eq(b) {
                    self.pop_data()?;
                    self.next_ip();
                } else {
                    self.set_ip(new_ip);
                }
            }
            Opcode::Call(a) => {
                let fn_addr = *a;
                self.push_return(Frame {
                    fn_addr,
                    return_to: ip + 1,
                    locals: Default::default(),
                })?;
                self.set_ip(fn_addr);
            }
            Opcode::NativeCall(x) => {
                call_native(*x, self)?;
                self.next_ip();
            }
            Opcode::Ret => {
                let frame = self.pop_return()?;
                self.set_ip(frame.return_to);
            }
            Opcode::Resolve(ref name) => {
                let e = self
                    .dict_entry(&name)
                    .ok_or_else(|| Xerr::UnknownWord(name.clone()))?;
                match e {
                    Entry::Constant(c) => {
                        let op = self.load_value_opcode(c.clone());
                        self.backpatch(ip, op)?;
                        self.fetch_and_run()?;
                    }
                    Entry::Variable(a) => {
                        let op = Opcode::Load(*a);
                        self.backpatch(ip, op)?;
                        self.fetch_and_run()?;
                    }
                    Entry::Function {
                        xf: Xfn::Interp(x), ..
                    } => {
                        let op = Opcode::Call(*x);
                        self.backpatch(ip, op)?;
                        self.fetch_and_run()?;
                    }
                    Entry::Function {
                        xf: Xfn::Native(x), ..
                    } => {
                        let op = Opcode::NativeCall(*x);
                        self.backpatch(ip, op)?;
                        self.fetch_and_run()?;
                    }
                }
            }
            Opcode::LoadStr(x) => {
                let val = Cell::from_xstr(x.clone());
                self.push_data(val)?;
                self.next_ip();
            }
            Opcode::LoadF64(x) => {
                let val = Cell::from_f64(*x);
                self.push_data(val)?;
                self.next_ip();
            }
            Opcode::LoadI64(x) => {
                let val = Cell::from_i64(*x);
                self.push_data(val)?;
                self.next_ip();
            }
            Opcode::LoadNil => {
                self.push_data(Cell::Nil)?;
                self.next_ip();
            }
            Opcode::LoadCell(c) => {
                let val = c.as_ref().clone();
                self.push_data(val)?;
                self.next_ip();
            }
            Opcode::Load(cref) => {
                let cref = *cref;
                let val = self.get_var(cref)?.clone();
                self.push_data(val)?;
                self.next_ip();
            }
            Opcode::Store(cref) => {
                let cref = *cref;
                let val = self.pop_data()?;
                self.set_var(cref, val)?;
                self.next_ip();
            }
            Opcode::InitLocal(i) => {
                let idx = *i;
                let val = self.pop_data()?;
                let frame = self.top_frame()?;
                if idx < frame.locals.len() {
                    frame.locals.set_mut(idx, val);
                } else {
                    frame.locals.push_back_mut(val);
                }
                if self.is_recording() {
                    self.add_reverse_step_droplocal(idx);
                }
                self.next_ip();
            }
            Opcode::LoadLocal(i) => {
                let i = *i;
                let frame = self.top_frame()?;
                let val = frame
                    .locals
                    .get(i)
                    .cloned()
                    .ok_or_else(|| Xerr::local_out_of_bounds(i))?;
                self.push_data(val)?;
                self.next_ip();
            }
            Opcode::Do(rel) => {
                let new_ip = rel.calculate(ip);
                let l = do_init(self)?;
                if l.range.is_empty() {
                    self.set_ip(new_ip);
                } else {
                    self.push_loop(l)?;
                    self.next_ip();
                }
            }
            Opcode::Break(rel) => {
                let new_ip = rel.calculate(ip);
                self.pop_loop()?;
                self.set_ip(new_ip);
            }
            Opcode::Loop(ref rel) => {
                let new_ip = rel.calculate(ip);
                if self.loop_next()? {
                    self.set_ip(new_ip);
                } else {
                    self.pop_loop()?;
                    self.next_ip();
                }
            }
        }
        OK
    }

}

#[verifier::exec_allows_no_decreases_clause]
fn take_first_cond_flow(xs: &mut State) -> Option<Flow> {
    for i in (xs.ctx.fs_len..xs.flow_stack.len()).rev() {
        let t = match xs.flow_stack[i] {
            Flow::If(_) => true,
            Flow::Else(_) => true,
            Flow::Case => true,
            Flow::CaseOf(_) => true,
            Flow::CaseEndOf(_) => true,
            Flow::Break(_) => continue,
            _ => break,
        };
        if t {
            return Some(xs.flow_stack.remove(i));
        }
    }
    None
}

fn core_word_if(xs: &mut State) -> Xresult {
    let org = xs.code_origin();
    xs.push_flow(Flow::If(org))?;
    xs.code_emit(Opcode::JumpIfNot(RelativeJump::uninit()))
}

fn core_word_else(xs: &mut State) -> Xresult {
    let if_org = match take_first_cond_flow(xs) {
        Some(Flow::If(org)) => org,
        _ => return Err(Xerr::unbalanced_else()),
    };
    let else_org = xs.code_origin();
    xs.push_flow(Flow::Else(else_org))?;
    xs.code_emit(Opcode::Jump(RelativeJump::uninit()))?;
    let rel = jump_offset(if_org, xs.code_origin());
    xs.backpatch_jump(if_org, rel)
}

fn core_word_then(xs: &mut State) -> Xresult {
    let if_org = match take_first_cond_flow(xs) {
        Some(Flow::If(org)) => org,
        Some(Flow::Else(org)) => org,
        _ => return Err(Xerr::unbalanced_then()),
    };
    let offs = jump_offset(if_org, xs.code_origin());
    xs.backpatch_jump(if_org, offs)
}

fn case_word(xs: &mut State) -> Xresult {
    xs.push_flow(Flow::Case)
}

#[verifier::exec_allows_no_decreases_clause]
fn endcase_word(xs: &mut State) -> Xresult {
    let endcase_org = xs.code_origin();
    loop {
        match take_first_cond_flow(xs) {
            Some(Flow::CaseEndOf(endof_org)) => {
                let rel = jump_offset(endof_org, endcase_org);
                xs.backpatch_jump(endof_org, rel)?;
            }
            Some(Flow::Case) => return OK,
            _ => return Err(Xerr::unbalanced_endcase()),
        }
    }
}

fn of_word(xs: &mut State) -> Xresult {
    let of_org = xs.code_origin();
    xs.push_flow(Flow::CaseOf(of_org))?;
    xs.code_emit(Opcode::CaseOf(RelativeJump::uninit()))
}

fn endof_word(xs: &mut State) -> Xresult {
    match take_first_cond_flow(xs) {
        Some(Flow::CaseOf(of_org)) => {
            let endof_org = xs.code_origin();
            xs.code_emit(Opcode::Jump(RelativeJump::uninit()))?;
            let next_case_rel = jump_offset(of_org, xs.code_origin());
            xs.backpatch_jump(of_org, next_case_rel)?;
            xs.push_flow(Flow::CaseEndOf(endof_org))
        }
        _ => Err(Xerr::unbalanced_endof()),
    }
}

fn core_word_begin(xs: &mut State) -> Xresult {
    xs.push_flow(Flow::Begin(xs.code_origin()))
}

fn core_word_until(xs: &mut State) -> Xresult {
    match xs.pop_flow() {
        Some(Flow::Begin(begin_org)) => {
            let offs = jump_offset(xs.code_origin(), begin_org);
            xs.code_emit(Opcode::JumpIfNot(offs))
        }
        _ => Err(Xerr::unbalanced_until()),
    }
}

fn core_word_while(xs: &mut State) -> Xresult {
    let cond = Flow::While(xs.code_origin());
    xs.code_emit(Opcode::JumpIfNot(RelativeJump::uninit()))?;
    xs.push_flow(cond)
}

#[verifier::exec_allows_no_decreases_clause]
fn core_word_repeat(xs: &mut State) -> Xresult {
    loop {
        match xs.pop_flow() {
            Some(Flow::Break(org)) => {
                let offs = jump_offset(org, xs.code_origin() + 1);
                xs.backpatch_jump(org, offs)?;
            }
            Some(Flow::Begin(begin_org)) => {
                let offs = jump_offset(xs.code_origin(), begin_org);
                return xs.code_emit(Opcode::Jump(offs));
            }
            Some(Flow::While(cond_org)) => match xs.pop_flow() {
                Some(Flow::Begin(begin_org)) => {
                    let offs = jump_offset(cond_org, xs.code_origin() + 1);
                    xs.backpatch_jump(cond_org, offs)?;
                    let offs = jump_offset(xs.code_origin(), begin_org);
                    return xs.code_emit(Opcode::Jump(offs));
                }
                _ => return Err(Xerr::unbalanced_while()),
            },
            _ => return Err(Xerr::unbalanced_repeat()),
        }
    }
}

fn core_word_break(xs: &mut State) -> Xresult {
    let has_loops = xs.flow_stack[xs.ctx.fs_len..]
            .iter()
            .rev()
            .any(|x|
        match x {
            Flow::Begin{..} | Flow::While{..} | Flow::Do {..} => true,
            _ => false,
        }
    );
    if !has_loops {
        return Err(Xerr::unbalanced_break());
    }
    let org = xs.code_origin();
    xs.code_emit(Opcode::Jump(RelativeJump::uninit()))?;
    xs.push_flow(Flow::Break(org))
}

fn jump_offset(origin: usize, dest: usize) -> RelativeJump {
    RelativeJump::from_to(origin, dest)
}

fn core_word_do(xs: &mut State) -> Xresult {
    let for_org = xs.code_origin();
    xs.code_emit(Opcode::Do(RelativeJump::uninit()))?; // init and jump over if range is empty
    let body_org = xs.code_origin();
    xs.push_flow(Flow::Do { for_org, body_org })
}

#[verifier::exec_allows_no_decreases_clause]
fn core_word_loop(xs: &mut State) -> Xresult {
    let loop_org = xs.code_origin();
    xs.code_emit(Opcode::Loop(RelativeJump::uninit()))?;
    let stop_org = xs.code_origin();
    loop {
        match xs.pop_flow() {
            Some(Flow::Break(org)) => {
                let stop_rel = jump_offset(org, stop_org);
                xs.backpatch(org, Opcode::Break(stop_rel))?;
            }
            Some(Flow::Do { for_org, body_org }) => {
                let stop_rel = jump_offset(for_org, stop_org);
                xs.backpatch(for_org, Opcode::Do(stop_rel))?;
                let body_rel = jump_offset(loop_org, body_org);
                return xs.backpatch(loop_org, Opcode::Loop(body_rel));
            }
            _ => return Err(Xerr::unbalanced_loop()),
        }
    }
}

} // verus!
fn main() {}
