use vstd::prelude::*;
verus! {

pub assume_specification<T> [ <[T]>::swap ] (s: &mut [T], a: usize, b: usize)
    requires a < old(s)@.len(), b < old(s)@.len()
    ensures final(s)@ == old(s)@.update(a as int, old(s)@[b as int]).update(b as int, old(s)@[a as int]);
// ---- opaque leaf types (preamble) ----
#[verifier::external_body]
pub struct Cell { _p: u8 }
impl Clone for Cell {
    #[verifier::external_body]
    fn clone(&self) -> (r: Self) ensures r == *self { Cell { _p: self._p } }
}
#[verifier::external_body]
pub struct Xstr { _p: u8 }
#[verifier::external_body]
fn verif_format_xstr() -> Xstr { Xstr { _p: 0 } }

pub enum Xerr { StackUnderflow, ErrorMsg(Xstr), InternalError }
pub type Xresult = Result<(), Xerr>;
pub type Xresult1<T> = Result<T, Xerr>;
pub const OK: Xresult = Ok(());

pub enum ReverseStep {
    SetIp(usize),
    PushData(Cell),
    PopData,
    SwapData,
    RotData,
    OverData,
}

pub struct Context { ds_len: usize, ip: usize }

pub struct State {
    data_stack: Vec<Cell>,
    ctx: Context,
    stack_limit: Option<usize>,
    pub reverse_log: Option<Vec<ReverseStep>>,
}

impl State {
    pub closed spec fn ds(&self) -> Seq<Cell> { self.data_stack@ }
    pub closed spec fn base(&self) -> int { self.ctx.ds_len as int }
    pub closed spec fn log(&self) -> Seq<ReverseStep> { match self.reverse_log { Some(l) => l@, None => Seq::empty() } }
    pub closed spec fn rec(&self) -> bool { self.reverse_log is Some }
    pub closed spec fn lim(&self) -> Option<usize> { self.stack_limit }
    pub closed spec fn frame_eq(&self, o: &State) -> bool {
        self.ctx == o.ctx && self.stack_limit == o.stack_limit && self.rec() == o.rec()
    }

    pub fn is_recording(&self) -> (r: bool)
        ensures r == self.rec()
    {
        self.reverse_log.is_some()
    }

    fn add_reverse_step(&mut self, step: ReverseStep)
        ensures
            final(self).ds() == old(self).ds(), final(self).frame_eq(old(self)),
            old(self).rec() ==> final(self).log() == old(self).log().push(step),
            !old(self).rec() ==> final(self).log() == old(self).log(),
    {
        if let Some(log) = self.reverse_log.as_mut() {
            log.push(step);
        }
    }

    fn check_stack_limit(&mut self) -> (r: Xresult)
        ensures *final(self) == *old(self),
            r is Ok <==> (match old(self).lim() { Some(l) => old(self).ds().len() < l, None => old(self).ds().len() < usize::MAX }),
    {
        {
            let limit = self.stack_limit.unwrap_or(usize::MAX);
            if self.data_stack.len() >= limit {
                let msg = verif_format_xstr();
                return Err(Xerr::ErrorMsg(msg));
            }
        }
        OK
    }

    pub fn push_data(&mut self, data: Cell) -> (r: Xresult)
        ensures
            final(self).frame_eq(old(self)),
            r is Err ==> final(self).ds() == old(self).ds() && final(self).log() == old(self).log(),
            r is Ok ==> final(self).ds() == old(self).ds().push(data)
                && (old(self).rec() ==> final(self).log() == old(self).log().push(ReverseStep::PopData)),
            r is Ok <==> (match old(self).lim() { Some(l) => old(self).ds().len() < l, None => old(self).ds().len() < usize::MAX }),
    {
        self.check_stack_limit()?;
        if self.is_recording() {
            self.add_reverse_step(ReverseStep::PopData);
        }
        self.data_stack.push(data);
        OK
    }

    pub fn pop_data(&mut self) -> (r: Xresult1<Cell>)
        ensures
            final(self).frame_eq(old(self)),
            r is Err <==> old(self).ds().len() <= old(self).base(),
            r is Err ==> final(self).ds() == old(self).ds() && final(self).log() == old(self).log(),
            r is Ok ==> r->Ok_0 == old(self).ds().last() && final(self).ds() == old(self).ds().drop_last()
                && (old(self).rec() ==> final(self).log() == old(self).log().push(ReverseStep::PushData(r->Ok_0))),
    {
        if self.data_stack.len() > self.ctx.ds_len {
            let val = self.data_stack.pop().unwrap();
            if self.is_recording() {
                self.add_reverse_step(ReverseStep::PushData(val.clone()));
            }
            Ok(val)
        } else {
            Err(Xerr::StackUnderflow)
        }
    }

    fn swap_data(&mut self) -> (r: Xresult)
        requires old(self).base() <= old(self).ds().len()
        ensures
            final(self).frame_eq(old(self)),
            r is Ok <==> old(self).ds().len() - old(self).base() >= 2,
            r is Err ==> final(self).ds() == old(self).ds() && final(self).log() == old(self).log(),
            r is Ok ==> ({ let n = old(self).ds().len() as int;
                final(self).ds() == old(self).ds().update(n - 1, old(self).ds()[n - 2]).update(n - 2, old(self).ds()[n - 1]) }),
    {
        let len = self.data_stack.len();
        if (len - self.ctx.ds_len) >= 2 {
            if self.is_recording() {
                self.add_reverse_step(ReverseStep::SwapData);
            }
            self.data_stack.swap(len - 1, len - 2);
            OK
        } else {
            Err(Xerr::StackUnderflow)
        }
    }
}

} // verus!
fn main() {}
