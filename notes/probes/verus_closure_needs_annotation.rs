#![feature(allocator_api)]
use vstd::prelude::*;
verus! {
pub assume_specification<T, A: core::alloc::Allocator, F: FnMut() -> T>[ Vec::<T, A>::resize_with ](v: &mut Vec<T, A>, new_len: usize, f: F)
    ensures
        final(v)@.len() == new_len,
        forall|i: int| 0 <= i < new_len && i < old(v)@.len() ==> final(v)@[i] == old(v)@[i],
        forall|i: int| old(v)@.len() <= i < new_len ==> f.ensures((), #[trigger] final(v)@[i]);

fn t(v: &mut Vec<u8>, n: usize)
    requires old(v)@.len() <= n
    ensures forall|i: int| old(v)@.len() <= i < n ==> final(v)@[i] == 0
{
    v.resize_with(n, || 0);
}
}
fn main() {}
