use vstd::prelude::*;
verus! {

pub enum Xerr { StackUnderflow, InternalError, LoopStackUnderflow }
pub type Xresult = Result<(), Xerr>;
pub type Xresult1<T> = Result<T, Xerr>;
pub const OK: Xresult = Ok(());

#[derive(Clone, Copy)]
pub struct RelativeJump(i32);
impl RelativeJump {
    pub fn calculate(&self, ip: usize) -> usize {
        (ip as isize + self.0 as isize) as usize
    }
}

#[verifier::external_body]
#[derive(Clone, Copy)]
pub struct XfnPtr { _p: u8 }
#[verifier::external_body]
fn call_native(x: XfnPtr, xs: &mut State) -> Xresult { OK }

pub enum Opcode {
    Nop,
    Jump(RelativeJump),
    NativeCall(XfnPtr),
}

pub struct State {
    code: Vec<Opcode>,
    loops: Vec<u64>,
    ip: usize,
}

impl State {
    fn set_ip(&mut self, new_ip: usize) { self.ip = new_ip; }
    fn next_ip(&mut self) { self.ip += 1; }

    fn last_loop(&mut self) -> Xresult1<u64> {
        let l = self.loops.last_mut().ok_or_else(|| Xerr::InternalError)?;
        Ok(*l)
    }

    fn fetch_and_run(&mut self) -> Xresult {
        let ip = self.ip;
        match &self.code[ip] {
            Opcode::Nop => {
                self.next_ip();
            }
            Opcode::Jump(rel) => {
                let new_ip = rel.calculate(ip);
                self.set_ip(new_ip);
            }
            Opcode::NativeCall(x) => {
                call_native(*x, self)?;
                self.next_ip();
            }
        }
        OK
    }
}

} // verus!
fn main() {}
