use vstd::prelude::*;
verus! {

#[verifier::external_body] pub struct Xstr { _p: u8 }
#[verifier::external_body] pub struct Lex { _p: u8 }
pub enum Xerr { Unbalanced, Other }
pub type Xresult = Result<(), Xerr>;
pub const OK: Xresult = Ok(());

#[derive(Clone, PartialEq, Debug)]
enum ContextMode {
    Compile,
    Eval,
    MetaEval,
}

#[derive(Clone, Debug)]
struct Context {
    ds_len: usize,
    cs_len: usize,
    rs_len: usize,
    fs_len: usize,
    ls_len: usize,
    ss_ptr: usize,
    di_len: usize,
    ip: usize,
    mode: ContextMode,
}

pub struct State {
    code: Vec<u8>,
    input: Vec<Lex>,
    data_stack: Vec<u8>,
    return_stack: Vec<u8>,
    flow_stack: Vec<u8>,
    loops: Vec<u8>,
    special: Vec<u8>,
    dict: Vec<u8>,
    ctx: Context,
    nested: Vec<Context>,
}

impl State {
    fn code_origin(&self) -> (r: usize) ensures r == self.code@.len() { self.code.len() }

    fn context_open(&mut self, mode: ContextMode) -> (r: Xresult)
        ensures
            r is Ok,
            final(self).nested@ == old(self).nested@.push(old(self).ctx),
            final(self).ctx.mode == mode,
            final(self).ctx.ds_len == (if old(self).ctx.mode == mode { old(self).ctx.ds_len as int } else { old(self).data_stack@.len() as int }),
            final(self).input@ == old(self).input@,
            final(self).data_stack@ == old(self).data_stack@,
    {
        let mut tmp = Context {
            ds_len: 0,
            cs_len: self.code.len(),
            rs_len: self.return_stack.len(),
            fs_len: self.flow_stack.len(),
            ls_len: self.loops.len(),
            ss_ptr: self.special.len(),
            di_len: self.dict.len(),
            ip: self.code_origin(),
            mode,
        };
        if self.ctx.mode == tmp.mode {
            tmp.ds_len = self.ctx.ds_len;
        } else {
            // different modes should't see stack of each other
            tmp.ds_len = self.data_stack.len();
        }
        std::mem::swap(&mut self.ctx, &mut tmp);
        self.nested.push(tmp);
        OK
    }

    #[verifier::external_body]
    fn intern_source(&mut self, buf: Xstr, path: Option<Xstr>) -> (r: Xresult)
        ensures r is Ok, final(self).input@.len() == old(self).input@.len() + 1,
            final(self).nested@ == old(self).nested@, final(self).ctx == old(self).ctx,
    { unimplemented!() }

    #[verifier::external_body]
    fn build0(&mut self) -> (r: Xresult)
        ensures r is Ok ==> final(self).input@.len() + 1 == old(self).input@.len()
            && final(self).nested@ == old(self).nested@,
    { unimplemented!() }

    #[verifier::external_body]
    fn context_close(&mut self) -> (r: Xresult)
        ensures r is Ok ==> old(self).nested@.len() > 0 && final(self).nested@ == old(self).nested@.drop_last()
            && final(self).ctx.mode == old(self).nested@.last().mode && final(self).input@ == old(self).input@,
    { unimplemented!() }

    // C10 obligation: a rejected source leaves no pending input and no open context
    fn build_from_source(&mut self, s: Xstr, mode: ContextMode) -> (r: Xresult)
        ensures
            final(self).input@.len() == old(self).input@.len(),
            final(self).nested@.len() == old(self).nested@.len(),
            final(self).ctx.mode == old(self).ctx.mode,
    {
        self.context_open(mode)?;
        self.intern_source(s, None)?;
        self.build0()?;
        self.context_close()
    }
}

} // verus!
fn main() {}
