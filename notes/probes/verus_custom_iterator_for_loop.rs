use vstd::prelude::*;
use std::rc::Rc;
use std::borrow::Cow;
use std::ops::Range;
verus! {

type BitstrRange = Range<usize>;

#[verifier::allow(autoderive_clone_without_spec)]
#[derive(Default)]
pub struct Bitstr {
    range: BitstrRange,
    data: Rc<Cow<'static, [u8]>>,
}

#[verifier::external_body]
fn buf_get(d: &Rc<Cow<'static, [u8]>>, i: usize) -> (r: u8)
    requires i < d@.len()
    ensures r == d@[i as int]
{
    d[i]
}

pub open spec fn bit_at(s: Seq<u8>, pos: int) -> u8 {
    (s[pos / 8] >> ((7 - pos % 8) as u8)) & 1
}

impl Bitstr {
    pub closed spec fn bytes(&self) -> Seq<u8> { self.data@ }
    #[verifier::type_invariant]
    pub closed spec fn wf(&self) -> bool {
        self.range.start <= self.range.end && self.range.end <= 8 * self.bytes().len()
    }
    pub closed spec fn view(&self) -> Seq<u8> {
        Seq::new((self.range.end - self.range.start) as nat, |i: int| bit_at(self.bytes(), self.range.start + i))
    }
}

pub struct Bits<'a> {
    pos: usize,
    bs: &'a Bitstr,
}

impl<'a> Bits<'a> {
    #[verifier::type_invariant]
    pub closed spec fn inv(&self) -> bool {
        self.bs.wf() && self.bs.range.start <= self.pos
    }
    pub closed spec fn rem(&self) -> Seq<u8> {
        if self.pos >= self.bs.range.end { Seq::empty() } else {
            Seq::new((self.bs.range.end - self.pos) as nat, |i: int| bit_at(self.bs.bytes(), self.pos + i))
        }
    }
}

impl<'a> vstd::std_specs::iter::IteratorSpecImpl for Bits<'a> {
    open spec fn obeys_prophetic_iter_laws(&self) -> bool { true }
    open spec fn remaining(&self) -> Seq<u8> { self.rem() }
    open spec fn will_return_none(&self) -> bool { true }
    open spec fn decrease(&self) -> Option<nat> { Some(self.rem().len()) }
    open spec fn peek(&self, index: int) -> Option<u8> { if 0 <= index < self.rem().len() { Some(self.rem()[index]) } else { None } }
}

impl<'a> Iterator for Bits<'a> {
    type Item = u8;
    fn next(&mut self) -> (r: Option<u8>)
    {
        proof { use_type_invariant(&*self); use_type_invariant(self.bs); }
        if self.pos >= self.bs.range.end {
            None
        } else {
            let i = self.pos / 8;
            let offset = 7 - (self.pos % 8);
            let val = (buf_get(&self.bs.data, i) >> offset) & 1;
            self.pos += 1;
            Some(val)
        }
    }
}

impl Bitstr {
    pub fn bits<'a>(&'a self) -> (r: Bits<'a>)
        ensures r.rem() == self.view()
    {
        proof { use_type_invariant(self); }
        Bits {
            pos: self.range.start,
            bs: self,
        }
    }
    fn count(&self) -> (n: usize)
        ensures n == self.view().len()
    {
        let mut n: usize = 0;
        for x in it: self.bits()
            invariant n == it.index(), it.seq() == self.view(),
        {
            n += 1;
        }
        n
    }
}

} // verus!
fn main() {}
