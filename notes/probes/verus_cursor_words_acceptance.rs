use vstd::prelude::*;
use std::rc::Rc;
verus! {
#[verifier::external_body] pub struct Xstr { _p: u8 }
#[verifier::external_body] pub struct Xmap { _p: u8 }
impl Xmap {
    #[verifier::external_body] pub fn new() -> Xmap { unimplemented!() }
    #[verifier::external_body] pub fn insert_mut(&mut self, k: Cell, v: Cell) { unimplemented!() }
}
#[verifier::external_body] pub struct Xvec { _p: u8 }
impl Xvec {
    #[verifier::external_body] pub fn push_back(&self, c: Cell) -> Xvec { unimplemented!() }
    #[verifier::external_body] pub fn last(&self) -> Option<&Cell> { unimplemented!() }
    #[verifier::external_body] pub fn len(&self) -> usize { unimplemented!() }
    #[verifier::external_body] pub fn drop_last(&self) -> Option<Xvec> { unimplemented!() }
}
#[verifier::external_body] pub struct Xfn { _p: u8 }
#[verifier::external_body] pub struct Xanyrc { _p: u8 }
pub type Xint = i128;
pub type Xreal = f64;
pub type Xbitstr = Bitstr;

#[derive(PartialEq, Eq, Structural, Clone, Copy)]
pub enum Byteorder { Little, Big }
pub const LITTLE: Byteorder = Byteorder::Little;
pub const BIG: Byteorder = Byteorder::Big;
pub const NATIVE: Byteorder = LITTLE;

// Bitstr: contracts proved in unit A, assumed here
#[verifier::external_body] pub struct Bitstr { _p: u8 }
impl Clone for Bitstr { #[verifier::external_body] fn clone(&self) -> (r: Self) ensures r == *self { unimplemented!() } }
pub struct Iter8<'a> { bs: &'a Bitstr }
impl<'a> Iterator for Iter8<'a> { type Item = (u8, u32); #[verifier::external_body] fn next(&mut self) -> Option<(u8,u32)> { unimplemented!() } }
pub struct Bits<'a> { bs: &'a Bitstr }
impl<'a> Iterator for Bits<'a> { type Item = u8; #[verifier::external_body] fn next(&mut self) -> Option<u8> { unimplemented!() } }
impl Bitstr {
    #[verifier::external_body] pub fn start(&self) -> usize { unimplemented!() }
    #[verifier::external_body] pub fn end(&self) -> usize { unimplemented!() }
    #[verifier::external_body] pub fn len(&self) -> usize { unimplemented!() }
    #[verifier::external_body] pub fn is_bytestr(&self) -> bool { unimplemented!() }
    #[verifier::external_body] pub fn seek(&self, pos: usize) -> Option<Bitstr> { unimplemented!() }
    #[verifier::external_body] pub fn read(&mut self, n: usize) -> Option<Bitstr> { unimplemented!() }
    #[verifier::external_body] pub fn substr(&self, s: usize, e: usize) -> Option<Bitstr> { unimplemented!() }
    #[verifier::external_body] pub fn bits_range(&self) -> std::ops::Range<usize> { unimplemented!() }
    #[verifier::external_body] pub fn to_uint(&self, o: Byteorder) -> u128 { unimplemented!() }
    #[verifier::external_body] pub fn to_int(&self, o: Byteorder) -> i128 { unimplemented!() }
    #[verifier::external_body] pub fn eq_with(&self, o: &Bitstr) -> bool { unimplemented!() }
    #[verifier::external_body] pub fn iter8<'a>(&'a self) -> Iter8<'a> { unimplemented!() }
    #[verifier::external_body] pub fn bits<'a>(&'a self) -> Bits<'a> { unimplemented!() }
}

pub struct WithTag { tags: Xmap, value: Cell }
pub enum Cell {
    Nil, Flag(bool), Int(Xint), Real(Xreal), Str(Xstr), Vector(Xvec), Map(Xmap), Fun(Xfn),
    Bitstr(Xbitstr), AnyRc(Xanyrc), WithTag(Rc<WithTag>),
}
impl Clone for Cell { #[verifier::external_body] fn clone(&self) -> (r: Self) ensures r == *self { unimplemented!() } }
pub const ZERO: Cell = Cell::Int(0);
pub const TRUE: Cell = Cell::Flag(true);
impl Cell {
    #[verifier::external_body] pub fn bitstr(&self) -> Xresult1<&Xbitstr> { unimplemented!() }
    #[verifier::external_body] pub fn to_bitstr(&self) -> Xresult1<Xbitstr> { unimplemented!() }
    #[verifier::external_body] pub fn to_usize(&self) -> Xresult1<usize> { unimplemented!() }
    #[verifier::external_body] pub fn vec(&self) -> Xresult1<&Xvec> { unimplemented!() }
    #[verifier::external_body] pub fn value(&self) -> &Cell { unimplemented!() }
    #[verifier::external_body] pub fn with_tags(&self, tags: Xmap) -> Cell { unimplemented!() }
    #[verifier::external_body] pub fn insert_tag(&self, k: Cell, v: Cell) -> Cell { unimplemented!() }
    #[verifier::external_body] pub fn get_tag(&self, k: &Cell) -> Option<&Cell> { unimplemented!() }
}
impl From<usize> for Cell { #[verifier::external_body] fn from(x: usize) -> Self { unimplemented!() } }
impl From<i128> for Cell { #[verifier::external_body] fn from(x: i128) -> Self { unimplemented!() } }
impl From<Xbitstr> for Cell { #[verifier::external_body] fn from(x: Xbitstr) -> Self { unimplemented!() } }
impl From<Xvec> for Cell { #[verifier::external_body] fn from(x: Xvec) -> Self { unimplemented!() } }
#[verifier::external_body] fn lit_offset() -> Cell { unimplemented!() }
#[verifier::external_body] fn lit_len() -> Cell { unimplemented!() }
#[verifier::external_body] fn lit_big() -> Cell { unimplemented!() }

pub enum Xerr {
    StackUnderflow, IntegerOverflow,
    ReadError { remain: usize, len: usize },
    SeekError { src: Xbitstr, offset: usize },
    MatchError { src: Xbitstr, expect: Xbitstr, fail_pos: usize },
    ToBytestrError(Xbitstr),
    OutOfBounds { index: Xint, range: std::ops::Range<usize> },
}
impl Xerr {
    #[verifier::external_body] pub fn out_of_range(idx: usize, range: std::ops::Range<usize>) -> Xerr { unimplemented!() }
    #[verifier::external_body] pub fn out_of_bounds(idx: usize, len: usize) -> Xerr { unimplemented!() }
}
pub type Xresult = Result<(), Xerr>;
pub type Xresult1<T> = Result<T, Xerr>;
pub const OK: Xresult = Ok(());

#[derive(Clone, Copy)]
pub struct CellRef(usize);
pub struct BitstrState { big_endian: CellRef, offset: CellRef, input: CellRef, stash: CellRef, output: CellRef, output_len: CellRef }
pub struct Xstate { pub bitstr_mod: BitstrState, heap: Vec<Cell> }
impl Xstate {
    #[verifier::external_body] pub fn get_var(&self, c: CellRef) -> Xresult1<&Cell> { unimplemented!() }
    #[verifier::external_body] pub fn set_var(&mut self, c: CellRef, v: Cell) -> Xresult { unimplemented!() }
    #[verifier::external_body] pub fn pop_data(&mut self) -> Xresult1<Cell> { unimplemented!() }
    #[verifier::external_body] pub fn push_data(&mut self, c: Cell) -> Xresult { unimplemented!() }
}

// ---------- extracted: src/bitstr_ext.rs ----------
fn current_input(xs: &Xstate) -> Xresult1<&Xbitstr> {
    xs.get_var(xs.bitstr_mod.input)?.bitstr()
}

fn current_offset(xs: &Xstate) -> Xresult1<usize> {
    xs.get_var(xs.bitstr_mod.offset)?.to_usize()
}

fn move_offset_checked(xs: &mut Xstate, pos: usize) -> Xresult {
    let s = current_input(xs)?;
    if s.start() <= pos && pos <= s.end() {
        xs.set_var(xs.bitstr_mod.offset, Cell::from(pos))?;
        OK
    } else {
        Err(Xerr::SeekError {
            src: s.clone(),
            offset: pos,
        })
    }
}

fn word_seek(xs: &mut Xstate) -> Xresult {
    let pos = xs.pop_data()?.to_usize()?;
    move_offset_checked(xs, pos)
}

fn word_remain(xs: &mut Xstate) -> Xresult {
    let s = current_input(xs)?;
    let offset = current_offset(xs)?;
    let res = Cell::from(s.end().max(offset) - offset);
    xs.push_data(res)
}

fn read_bits(xs: &mut Xstate, n: usize) -> Xresult {
    let s = peek_bits(xs, n)?;
    move_offset_checked(xs, s.end())?;
    let val = Cell::from(s);
    xs.push_data(val)
}

fn word_bitstr(xs: &mut Xstate) -> Xresult {
    let n = xs.pop_data()?.to_usize()?;
    read_bits(xs, n)
}

fn word_bytes(xs: &mut Xstate) -> Xresult {
    let n = xs.pop_data()?.to_usize()?;
    read_bits(xs, n * 8)
}

fn rest_bits(xs: &mut Xstate) -> Xresult1<Xbitstr> {
    let rest = current_input(xs)?;
    let start = current_offset(xs)?;
    rest.seek(start).ok_or_else(|| Xerr::out_of_range(start, rest.bits_range()))
}

fn peek_bits(xs: &mut Xstate, n: usize) -> Xresult1<Xbitstr> {
    let s = current_input(xs)?;
    let start = current_offset(xs)?;
    let end = start + n;
    if let Some(ss) = s.substr(start, end) {
        Ok(ss)
    } else {
        let remain = s.end().max(start) - start; 
        Err(Xerr::ReadError {
            remain,
            len: n,
        })
    }
}

fn read_unsigned(xs: &mut Xstate, n: usize, bo: Byteorder) -> Xresult {
    let s = peek_bits(xs, n)?;
    if s.len() > 127usize {
        return Err(Xerr::IntegerOverflow);
    }
    let x = s.to_uint(bo) as Xint;
    move_offset_checked(xs, s.end())?;
    xs.push_data(Cell::from(x).with_tags(bitstr_num_tags(s, bo)))
}

fn read_signed(xs: &mut Xstate, n: usize, bo: Byteorder) -> Xresult {
    let s = peek_bits(xs, n)?;
    if s.len() > 128usize {
        return Err(Xerr::IntegerOverflow);
    }
    let x = s.to_int(bo);
    move_offset_checked(xs, s.end())?;
    xs.push_data(Cell::from(x).with_tags(bitstr_num_tags(s, bo)))
}

pub(crate) fn open_bitstr(xs: &mut Xstate, s: Bitstr) -> Xresult {
    let old_offset = xs.get_var(xs.bitstr_mod.offset)?.clone();
    let old_input = xs.get_var(xs.bitstr_mod.input)?.clone();
    xs.set_var(xs.bitstr_mod.offset, Cell::from(s.start()))?;
    xs.set_var(xs.bitstr_mod.input, Cell::from(s))?;
    let stash = xs
        .get_var(xs.bitstr_mod.stash)?
        .vec()?
        .push_back(old_input.insert_tag(lit_offset(), old_offset));
    xs.set_var(xs.bitstr_mod.stash, Cell::from(stash))
}

fn word_open_bitstr(xs: &mut Xstate) -> Xresult {
    let s = xs.pop_data()?.to_bitstr()?;
    open_bitstr(xs, s)
}

fn word_close_bitstr(xs: &mut Xstate) -> Xresult {
    let stash = xs.get_var(xs.bitstr_mod.stash)?.vec()?;
    let last = stash.last().ok_or_else(|| Xerr::out_of_bounds(0, stash.len()))?;
    let offset = last.get_tag(&lit_offset()).unwrap_or_else(|| &ZERO);
    let input = last.value().clone();
    let stash = stash.drop_last().unwrap();
    xs.set_var(xs.bitstr_mod.offset, offset.clone())?;
    xs.set_var(xs.bitstr_mod.input, input)?;
    xs.set_var(xs.bitstr_mod.stash, Cell::from(stash))?;
    OK
}

fn nulbytestr_read(xs: &mut Xstate) -> Xresult1<Bitstr> {
    let mut s = rest_bits(xs)?;
    if !s.is_bytestr() {
        return Err(Xerr::ToBytestrError(s));
    }
    let start = s.start();
    let mut len = 0;
    for (x, n) in s.iter8() {
        len += n as usize;
        if x == 0 {
            break;
        }
    }
    let ss = s.read(len).unwrap();
    move_offset_checked(xs, start + len)?;
    Ok(ss)
}

fn bitstr_num_tags(bs: Bitstr, bo: Byteorder) -> Xmap {
    let mut m = Xmap::new();
    m.insert_mut(lit_len(), Cell::from(bs.len()));
    if bo == BIG && bo != NATIVE {
        m.insert_mut(lit_big(), TRUE);
    }
    m
}
} // verus!
fn main() {}
