// ---- appended to src/bitstr.rs in a scratch copy; 8 harnesses ran in 18 s wall (-j 8), 2-7 s each ----
#[cfg(kani)]
mod kani_harness {
    use super::*;

    fn roundtrip(n: usize, order: Byteorder) {
        let val: i128 = kani::any();
        let bs = Bitstr::from_int(val, n, order);
        assert!(bs.len() == n);
        let u = bs.to_uint(order);
        let expect = if n == 128 { val as u128 } else { (val as u128) & ((1u128 << n) - 1) };
        assert!(u == expect);
        let i = bs.to_int(order);
        let sh = 128 - n as u32;
        assert!(i == (val << sh) >> sh);
        std::mem::forget(bs);
    }
    macro_rules! rt { ($name:ident, $n:expr, $o:expr) => { #[kani::proof] #[kani::unwind(20)] fn $name() { roundtrip($n, $o) } } }
    rt!(rt_1_big, 1, BIG);
    rt!(rt_13_little, 13, LITTLE);
    rt!(rt_128_little, 128, LITTLE);
    // NOTE: the same harness with a *symbolic* width n in 1..=128 ran CBMC out of memory after 4 min.
}
