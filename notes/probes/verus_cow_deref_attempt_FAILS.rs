use vstd::prelude::*;
use std::rc::Rc;
use std::borrow::Cow;
use std::ops::Deref;
verus! {

pub uninterp spec fn cow_target<'b, B: ?Sized + ToOwned>(c: &Cow<'b, B>) -> &'b B;

pub assume_specification<'b, B: ?Sized + ToOwned>[ <Cow<'b, B> as Deref>::deref ](c: &Cow<'b, B>) -> (r: &'b B)
    ensures r == cow_target(c);

pub broadcast axiom fn cow_u8_view<'b>(c: &Cow<'b, [u8]>)
    ensures #[trigger] cow_target(c)@ == c@;

fn probe4(d: &Cow<'static, [u8]>, i: usize) -> u8
    requires i < d@.len()
{
    broadcast use cow_u8_view;
    d[i]
}
fn probe(d: &Rc<Cow<'static, [u8]>>, i: usize) -> u8
    requires i < d@.len()
{
    broadcast use cow_u8_view;
    d[i]
}

} // verus!
fn main() {}
