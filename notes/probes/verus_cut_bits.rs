use vstd::prelude::*;
use std::rc::Rc;
use std::borrow::Cow;
use std::ops::Range;
verus! {

// ================= preamble: spec vocabulary =================
// bit `i` (0 = most significant) of byte x
pub open spec fn byte_bit(x: u8, i: int) -> bool {
    0 <= i < 8 && ((x >> ((7 - i) as u8)) & 1u8) == 1u8
}

// bit `j` (0 = most significant) of the low `w` bits of v
pub open spec fn field_bit(v: u8, w: int, j: int) -> bool {
    0 <= j < w <= 8 && ((v >> ((w - 1 - j) as u8)) & 1u8) == 1u8
}

pub open spec fn bit_at(s: Seq<u8>, pos: int) -> bool {
    byte_bit(s[pos / 8], pos % 8)
}

// ================= extracted: src/bitstr.rs =================
fn bit_mask(len: usize) -> (r: u8)
    requires len <= 8
    ensures r as u32 == !(0xffu32 << (len as u32)) & 0xffu32
{
    proof {
        let l = len as u32;
        assert(l <= 8 ==> ((!(0xffu32 << l)) as u8) as u32 == !(0xffu32 << l) & 0xffu32) by (bit_vector);
    }
    !0xffu32.wrapping_shl(len as u32) as u8
}

fn cut_bits(x: u8, start: usize, end: usize) -> (r: (u8, usize))
    requires start < end
    ensures
        r.1 == (if end - start < 8 - start % 8 { end - start } else { 8 - start % 8 }),
        1 <= r.1 <= 8,
        forall|j: int| 0 <= j < r.1 ==> field_bit(r.0, r.1 as int, j) == byte_bit(x, start % 8 + j),
        r.1 < 8 ==> (r.0 >> (r.1 as u8)) == 0u8,
{
    let start_bit = start % 8;
    let len = (end - start).min(8 - start_bit);
    let shift = 8 - (start_bit + len);
    let result = x.wrapping_shr(shift as u32) & bit_mask(len);
    proof {
        let sb = start_bit as u32;
        let l = len as u32;
        let m = bit_mask_spec(l);
        assert(result == (x >> (shift as u32)) & (m as u8)) by {
            assert((!(0xffu32 << l) & 0xffu32) as u8 == m as u8 ) ;
        }
        assert forall|j: int| 0 <= j < len implies field_bit(result, len as int, j) == byte_bit(x, start_bit + j) by {
            let jj = j as u32;
            lemma_cut(x, sb, l, jj);
        }
        lemma_cut_hi(x, sb, l);
    }
    (result, len)
}

pub open spec fn bit_mask_spec(l: u32) -> u32 { !(0xffu32 << l) & 0xffu32 }

proof fn lemma_cut(x: u8, sb: u32, l: u32, j: u32)
    requires sb < 8, 1 <= l, sb + l <= 8, j < l
    ensures
        ((((x >> ((8 - (sb + l)) as u32)) & (bit_mask_spec(l) as u8)) >> ((l - 1 - j) as u8)) & 1u8)
            == ((x >> ((7 - (sb + j)) as u8)) & 1u8)
{
    assert(sb < 8 && 1 <= l && sb + l <= 8 && j < l ==>
        ((((x >> ((8 - (sb + l)) as u32)) & ((!(0xffu32 << l) & 0xffu32) as u8)) >> ((l - 1 - j) as u8)) & 1u8)
            == ((x >> ((7 - (sb + j)) as u8)) & 1u8)) by (bit_vector);
}

proof fn lemma_cut_hi(x: u8, sb: u32, l: u32)
    requires sb < 8, 1 <= l, sb + l <= 8
    ensures l < 8 ==> (((x >> ((8 - (sb + l)) as u32)) & (bit_mask_spec(l) as u8)) >> (l as u8)) == 0u8
{
    assert(sb < 8 && 1 <= l && sb + l <= 8 && l < 8 ==>
        (((x >> ((8 - (sb + l)) as u32)) & ((!(0xffu32 << l) & 0xffu32) as u8)) >> (l as u8)) == 0u8) by (bit_vector);
}

} // verus!
fn main() {}
