// appended to src/bitstr.rs in a scratch copy. 6 members, 11.7 s wall at -j 6 (1.3-3.8 s each).
// Result on the unchanged tree: dec_k4_n8_little and dec_k5_n32_little FAIL (defect D6), the other four pass.
#[cfg(kani)]
mod verif_kani {
    use super::*;

    // reference decoder: a function of the bit sequence only
    fn ref_uint(bits: &[u8], order: Byteorder) -> u128 {
        let n = bits.len();
        let mut acc: u128 = 0;
        if order == BIG {
            let mut i = 0;
            while i < n { acc = (acc << 1) | bits[i] as u128; i += 1; }
        } else {
            // groups of 8 bits from the start; group g has weight 2^(8g); last group may be short
            let mut g = 0;
            while g * 8 < n {
                let w = if n - g * 8 < 8 { n - g * 8 } else { 8 };
                let mut v: u128 = 0;
                let mut j = 0;
                while j < w { v = (v << 1) | bits[g * 8 + j] as u128; j += 1; }
                acc |= v << (8 * g);
                g += 1;
            }
        }
        acc
    }

    fn decode_at<const K: usize, const N: usize, const NB: usize>(order: Byteorder) {
        let bytes: [u8; NB] = kani::any();
        let bs = Bitstr { range: K..K + N, data: Rc::new(Cow::Owned(bytes.to_vec())) };
        let mut bits = [0u8; N];
        let mut i = 0;
        while i < N { let p = K + i; bits[i] = (bytes[p / 8] >> (7 - (p % 8))) & 1; i += 1; }
        assert!(bs.to_uint(order) == ref_uint(&bits, order));
        std::mem::forget(bs);
    }

    #[kani::proof] #[kani::unwind(34)] fn dec_k0_n13_big() { decode_at::<0, 13, 2>(BIG) }
    #[kani::proof] #[kani::unwind(34)] fn dec_k3_n13_big() { decode_at::<3, 13, 2>(BIG) }
    #[kani::proof] #[kani::unwind(34)] fn dec_k0_n13_little() { decode_at::<0, 13, 2>(LITTLE) }
    #[kani::proof] #[kani::unwind(34)] fn dec_k4_n8_little() { decode_at::<4, 8, 2>(LITTLE) }
    #[kani::proof] #[kani::unwind(34)] fn dec_k5_n32_little() { decode_at::<5, 32, 5>(LITTLE) }
    #[kani::proof] #[kani::unwind(130)] fn dec_k7_n128_big() { decode_at::<7, 128, 17>(BIG) }
}
