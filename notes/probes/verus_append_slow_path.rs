#![feature(allocator_api)]
use vstd::prelude::*;
use std::rc::Rc;
use std::borrow::Cow;
use std::ops::Range;
verus! {

// ================= preamble: spec vocabulary =================
pub open spec fn byte_bit(x: u8, i: int) -> bool {
    0 <= i < 8 && ((x >> ((7 - i) as u8)) & 1u8) == 1u8
}
pub open spec fn bit_at(s: Seq<u8>, pos: int) -> bool {
    byte_bit(s[pos / 8], pos % 8)
}
pub open spec fn ubi(n: int) -> int { (n + 7) / 8 }
pub open spec fn bits01(v: Seq<bool>) -> Seq<u8> { v.map_values(|b: bool| if b { 1u8 } else { 0u8 }) }

// ================= preamble: assumed std contracts =================
pub assume_specification<T, A: core::alloc::Allocator, F: FnMut() -> T>[ Vec::<T, A>::resize_with ](v: &mut Vec<T, A>, new_len: usize, f: F)
    ensures
        final(v)@.len() == new_len,
        forall|i: int| 0 <= i < new_len && i < old(v)@.len() ==> final(v)@[i] == old(v)@[i],
        forall|i: int| old(v)@.len() <= i < new_len ==> f.ensures((), #[trigger] final(v)@[i]);

pub assume_specification<T>[ <T as core::convert::From<T>>::from ](t: T) -> (r: T)
    ensures r == t;

// ================= Bitstr =================
type BitstrRange = Range<usize>;

pub struct Bitstr {
    range: BitstrRange,
    data: Rc<Cow<'static, [u8]>>,
}

#[verifier::external_body]
fn buf_get(d: &Rc<Cow<'static, [u8]>>, i: usize) -> (r: u8)
    requires i < d@.len()
    ensures r == d@[i as int]
{
    d[i]
}

pub fn upper_bound_index(num_bits: usize) -> (r: usize)
    ensures r == ubi(num_bits as int)
{
    let n = if (num_bits % 8) > 0 { 1 } else { 0 };
    (num_bits / 8) + n
}

impl Bitstr {
    spec fn bytes(&self) -> Seq<u8> { self.data@ }
    spec fn s(&self) -> int { self.range.start as int }
    spec fn e(&self) -> int { self.range.end as int }
    #[verifier::type_invariant]
    spec fn wf(&self) -> bool {
        self.range.start <= self.range.end && self.range.end <= 8 * self.data@.len()
    }
    spec fn view(&self) -> Seq<bool> {
        Seq::new((self.range.end - self.range.start) as nat, |i: int| bit_at(self.data@, self.range.start + i))
    }

    pub(crate) fn len(&self) -> (r: usize)
        ensures r == self.view().len()
    {
        proof { use_type_invariant(self); }
        self.range.end - self.range.start
    }

    pub(crate) fn bits<'a>(&'a self) -> (r: Bits<'a>)
        ensures r.rem() == self.view(), bits01(r.rem()) == bits01(self.view())
    {
        proof { use_type_invariant(self); }
        Bits {
            pos: self.range.start,
            bs: self,
        }
    }

    #[verifier::external_body]
    fn data_mut(&mut self) -> (r: &mut Vec<u8>)
        ensures r@ == old(self).data@, final(self).data@ == final(r)@, final(self).range == old(self).range
    {
        Rc::make_mut(&mut self.data).to_mut()
    }

    // slow path of the repaired append_bits_mut (R2: `mut self` -> local `this`)
    fn append_bits_slow(self, tail: &Bitstr) -> (r: Bitstr)
        requires self.e() + tail.view().len() <= usize::MAX
        ensures r.view() == self.view() + tail.view()
    {
        let mut this = self;
        proof { use_type_invariant(&this); use_type_invariant(tail); }
        let mut pos = this.range.end;
        let new_len = upper_bound_index(pos + tail.len());
        let ghost old_bytes = this.data@;
        let ghost old_s = this.s();
        let ghost old_e = this.e();
        let ghost old_view = this.view();
        let data = this.data_mut();
        data.truncate(upper_bound_index(pos));
        if pos % 8 > 0 {
            let ghost b0 = data@[pos as int / 8];
            data[pos / 8] &= 0xffu8 << (8 - pos % 8);
            proof {
                let k = (pos % 8) as u8;
                let b1 = data@[pos as int / 8];
                assert(b1 == b0 & (0xffu8 << ((8 - k) as u8)));
                assert forall|i: int| 0 <= i < 8 implies byte_bit(b1, i) == (i < k && byte_bit(b0, i)) by {
                    lemma_mask_keep(b0, k, i as u8);
                }
            }
        }
        data.resize_with(new_len, || -> (r: u8) ensures r == 0 { 0 });
        assert(forall|p: int| old_s <= p < old_e ==> bit_at(data@, p) == bit_at(old_bytes, p));
        assert(forall|p: int| old_e <= p < 8 * new_len ==> !bit_at(data@, p)) by {
            assert forall|p: int| old_e <= p < 8 * new_len implies !bit_at(data@, p) by {
                lemma_zero_byte(p % 8);
                if p / 8 < ubi(old_e) {
                    assert(p / 8 == old_e / 8);
                    assert(old_e % 8 > 0);
                }
            }
        }
        for x in it: tail.bits()
            invariant
                pos == old_e + it.index(),
                old_e + tail.view().len() <= usize::MAX,
                it.seq() == bits01(tail.view()),
                data@.len() == new_len,
                new_len == ubi(old_e + tail.view().len()),
                forall|p: int| old_s <= p < old_e ==> bit_at(data@, p) == bit_at(old_bytes, p),
                forall|p: int| old_e <= p < pos ==> bit_at(data@, p) == tail.view()[p - old_e],
                forall|p: int| pos <= p < 8 * new_len ==> !bit_at(data@, p),
        {
            let i = pos / 8;
            let ghost before = data@;
            assert(x == bits01(tail.view())[pos - old_e]);
            assert(x <= 1);
            assert((x == 1) == tail.view()[pos - old_e]);
            data[i] |= x << (7 - (pos % 8));
            proof {
                let k = (pos % 8) as u8;
                let b0 = before[i as int];
                let b1 = data@[i as int];
                assert(!byte_bit(b0, k as int)) by { assert(!bit_at(before, pos as int)); }
                assert forall|j: int| 0 <= j < 8 implies byte_bit(b1, j) == (if j == k { x == 1 } else { byte_bit(b0, j) }) by {
                    lemma_or_bit(b0, x, k, j as u8);
                }
                assert forall|p: int| 0 <= p < 8 * new_len implies bit_at(data@, p) == (if p == pos { x == 1 } else { bit_at(before, p) }) by {
                    if p / 8 == i { assert(data@[p / 8] == b1); assert(before[p / 8] == b0); }
                    else { assert(data@[p / 8] == before[p / 8]); }
                }
            }
            proof {
                assert(pos < 8 * new_len);
                assert(bit_at(data@, pos as int) == tail.view()[pos - old_e]);
                assert forall|p: int| old_e <= p < pos implies bit_at(data@, p) == tail.view()[p - old_e] by {
                    assert(bit_at(data@, p) == bit_at(before, p));
                }
            }
            pos += 1;
        }
        let start = this.range.start;
        this.range = BitstrRange::from(start..pos);
        proof {
            assert(this.view() =~= old_view + tail.view());
        }
        this
    }
}

proof fn lemma_zero_byte(i: int)
    ensures !byte_bit(0u8, i)
{
    if 0 <= i < 8 {
        let k = (7 - i) as u8;
        assert(k < 8 ==> (0u8 >> k) & 1u8 == 0u8) by (bit_vector);
    }
}

proof fn lemma_mask_keep(b: u8, k: u8, i: u8)
    requires 0 < k < 8, i < 8
    ensures byte_bit(b & (0xffu8 << ((8 - k) as u8)), i as int) == (i < k && byte_bit(b, i as int))
{
    assert(0 < k < 8 && i < 8 ==>
        ((((b & (0xffu8 << ((8 - k) as u8))) >> ((7 - i) as u8)) & 1u8) == 1u8) == (i < k && (((b >> ((7 - i) as u8)) & 1u8) == 1u8))) by (bit_vector);
}

proof fn lemma_or_bit(b: u8, x: u8, k: u8, j: u8)
    requires k < 8, j < 8, x <= 1, ((b >> ((7 - k) as u8)) & 1u8) != 1u8
    ensures byte_bit(b | (x << ((7 - k) as u8)), j as int) == (if j == k { x == 1 } else { byte_bit(b, j as int) })
{
    assert(k < 8 && j < 8 && x <= 1 && ((b >> ((7 - k) as u8)) & 1u8) != 1u8 ==>
        (((((b | (x << ((7 - k) as u8))) >> ((7 - j) as u8)) & 1u8) == 1u8)
            == (if j == k { x == 1 } else { ((b >> ((7 - j) as u8)) & 1u8) == 1u8 }))) by (bit_vector);
}

pub struct Bits<'a> {
    pos: usize,
    bs: &'a Bitstr,
}

impl<'a> Bits<'a> {
    #[verifier::type_invariant]
    spec fn inv(&self) -> bool {
        self.bs.range.start <= self.pos
    }
    pub closed spec fn rem(&self) -> Seq<bool> {
        if self.pos >= self.bs.range.end { Seq::empty() } else {
            Seq::new((self.bs.range.end - self.pos) as nat, |i: int| bit_at(self.bs.data@, self.pos + i))
        }
    }
}

impl<'a> vstd::std_specs::iter::IteratorSpecImpl for Bits<'a> {
    open spec fn obeys_prophetic_iter_laws(&self) -> bool { true }
    open spec fn remaining(&self) -> Seq<u8> { bits01(self.rem()) }
    open spec fn will_return_none(&self) -> bool { true }
    open spec fn decrease(&self) -> Option<nat> { Some(self.rem().len()) }
    open spec fn peek(&self, index: int) -> Option<u8> {
        if 0 <= index < self.rem().len() { Some(if self.rem()[index] { 1u8 } else { 0u8 }) } else { None }
    }
}

impl<'a> Iterator for Bits<'a> {
    type Item = u8;
    fn next(&mut self) -> (r: Option<u8>)
    {
        proof { use_type_invariant(&*self); use_type_invariant(self.bs); }
        if self.pos >= self.bs.range.end {
            None
        } else {
            let i = self.pos / 8;
            let offset = 7 - (self.pos % 8);
            let val = (buf_get(&self.bs.data, i) >> offset) & 1;
            proof {
                let b = self.bs.data@[i as int];
                let o = offset as u8;
                assert(o < 8 ==> ((b >> o) & 1u8) == (if ((b >> o) & 1u8) == 1u8 { 1u8 } else { 0u8 })) by (bit_vector);
            }
            let ghost old_rem = self.rem();
            self.pos += 1;
            proof {
                assert(old_rem =~= seq![bit_at(self.bs.data@, self.pos - 1)] + self.rem());
                assert(bits01(old_rem) =~= seq![val] + bits01(self.rem()));
            }
            Some(val)
        }
    }
}

} // verus!
fn main() {}
