use vstd::prelude::*;
use std::rc::Rc;
use std::borrow::Cow;
use std::ops::Range;
verus! {

// ================= preamble: spec vocabulary =================
// bit `i` (0 = most significant) of byte x
pub open spec fn byte_bit(x: u8, i: int) -> bool {
    0 <= i < 8 && ((x >> ((7 - i) as u8)) & 1u8) == 1u8
}

// bit `j` (0 = most significant) of the low `w` bits of v
pub open spec fn field_bit(v: u8, w: int, j: int) -> bool {
    0 <= j < w <= 8 && ((v >> ((w - 1 - j) as u8)) & 1u8) == 1u8
}

pub open spec fn bit_at(s: Seq<u8>, pos: int) -> bool {
    byte_bit(s[pos / 8], pos % 8)
}

// ================= extracted: src/bitstr.rs =================
fn bit_mask(len: usize) -> (r: u8)
    requires len <= 8
    ensures r as u32 == !(0xffu32 << (len as u32)) & 0xffu32
{
    proof {
        let l = len as u32;
        assert(l <= 8 ==> ((!(0xffu32 << l)) as u8) as u32 == !(0xffu32 << l) & 0xffu32) by (bit_vector);
    }
    !0xffu32.wrapping_shl(len as u32) as u8
}

fn cut_bits(x: u8, start: usize, end: usize) -> (r: (u8, usize))
    requires start < end
    ensures
        r.1 == (if end - start < 8 - start % 8 { end - start } else { 8 - start % 8 }),
        1 <= r.1 <= 8,
        forall|j: int| 0 <= j < r.1 ==> field_bit(r.0, r.1 as int, j) == byte_bit(x, start % 8 + j),
        r.1 < 8 ==> (r.0 >> (r.1 as u8)) == 0u8,
{
    let start_bit = start % 8;
    let len = (end - start).min(8 - start_bit);
    let shift = 8 - (start_bit + len);
    let result = x.wrapping_shr(shift as u32) & bit_mask(len);
    proof {
        let sb = start_bit as u32;
        let l = len as u32;
        let m = bit_mask_spec(l);
        assert(result == (x >> (shift as u32)) & (m as u8)) by {
            assert((!(0xffu32 << l) & 0xffu32) as u8 == m as u8 ) ;
        }
        assert forall|j: int| 0 <= j < len implies field_bit(result, len as int, j) == byte_bit(x, start_bit + j) by {
            let jj = j as u32;
            lemma_cut(x, sb, l, jj);
        }
        lemma_cut_hi(x, sb, l);
    }
    (result, len)
}

pub open spec fn bit_mask_spec(l: u32) -> u32 { !(0xffu32 << l) & 0xffu32 }

proof fn lemma_cut(x: u8, sb: u32, l: u32, j: u32)
    requires sb < 8, 1 <= l, sb + l <= 8, j < l
    ensures
        ((((x >> ((8 - (sb + l)) as u32)) & (bit_mask_spec(l) as u8)) >> ((l - 1 - j) as u8)) & 1u8)
            == ((x >> ((7 - (sb + j)) as u8)) & 1u8)
{
    assert(sb < 8 && 1 <= l && sb + l <= 8 && j < l ==>
        ((((x >> ((8 - (sb + l)) as u32)) & ((!(0xffu32 << l) & 0xffu32) as u8)) >> ((l - 1 - j) as u8)) & 1u8)
            == ((x >> ((7 - (sb + j)) as u8)) & 1u8)) by (bit_vector);
}

proof fn lemma_cut_hi(x: u8, sb: u32, l: u32)
    requires sb < 8, 1 <= l, sb + l <= 8
    ensures l < 8 ==> (((x >> ((8 - (sb + l)) as u32)) & (bit_mask_spec(l) as u8)) >> (l as u8)) == 0u8
{
    assert(sb < 8 && 1 <= l && sb + l <= 8 && l < 8 ==>
        (((x >> ((8 - (sb + l)) as u32)) & ((!(0xffu32 << l) & 0xffu32) as u8)) >> (l as u8)) == 0u8) by (bit_vector);
}


// ================= Bitstr / Iter8 =================
type BitstrRange = Range<usize>;

pub struct Bitstr {
    range: BitstrRange,
    data: Rc<Cow<'static, [u8]>>,
}

#[verifier::external_body]
fn buf_get(d: &Rc<Cow<'static, [u8]>>, i: usize) -> (r: u8)
    requires i < d@.len()
    ensures r == d@[i as int]
{
    d[i]
}

impl Bitstr {
    #[verifier::type_invariant]
    spec fn wf(&self) -> bool {
        self.range.start <= self.range.end && self.range.end <= 8 * self.data@.len()
    }
    pub closed spec fn bytes(&self) -> Seq<u8> { self.data@ }
    pub closed spec fn e(&self) -> int { self.range.end as int }
    pub closed spec fn s(&self) -> int { self.range.start as int }

    pub(crate) fn end(&self) -> (r: usize)
        ensures r == self.e()
    {
        self.range.end
    }
}

// g packs bits [pos, pos+len) of s, right aligned, high bits zero
pub open spec fn is_group(s: Seq<u8>, pos: int, len: int, g: (u8, u32)) -> bool {
    &&& g.1 == len
    &&& 1 <= len <= 8
    &&& forall|j: int| 0 <= j < len ==> field_bit(g.0, len, j) == bit_at(s, pos + j)
    &&& (len < 8 ==> (g.0 >> (len as u8)) == 0u8)
}

pub struct Iter8<'a> {
    pos: usize,
    bs: &'a Bitstr,
}

impl<'a> Iter8<'a> {
    #[verifier::type_invariant]
    spec fn inv(&self) -> bool {
        self.bs.range.start <= self.pos
    }
    pub closed spec fn cur(&self) -> int { self.pos as int }
    pub closed spec fn src(&self) -> &Bitstr { self.bs }

    // contract of the real `next` (the Iterator impl delegates to the same text)
    fn next_(&mut self) -> (r: Option<(u8, u32)>)
        ensures
            final(self).src() == old(self).src(),
            old(self).cur() >= old(self).src().e() ==> r is None && final(self).cur() == old(self).cur(),
            old(self).cur() < old(self).src().e() ==> r is Some && ({
                let len = if old(self).src().e() - old(self).cur() < 8 { old(self).src().e() - old(self).cur() } else { 8 };
                is_group(old(self).src().bytes(), old(self).cur(), len, r->0) && final(self).cur() == old(self).cur() + len
            }),
    {
        proof { use_type_invariant(&*self); use_type_invariant(self.bs); }
        let start = self.pos;
        let end = self.bs.end();
        if start >= end {
            return None;
        }
        let len = (end - start).min(8);
        let idx = start / 8;
        let (mut val, n) = cut_bits(buf_get(&self.bs.data, idx), start, start + len);
        let ghost v1 = val;
        if n < len {
            let (val2, n2) = cut_bits(buf_get(&self.bs.data, idx + 1), start + n, start + len);
            val = (val << n2) | val2;
            proof {
                assert(n + n2 == len);
                assert((start + n) % 8 == 0);
                assert forall|j: int| 0 <= j < len implies field_bit(val, len as int, j) == bit_at(self.bs.data@, start + j) by {
                    lemma_join(v1, val2, n as u32, n2 as u32, j as u32);
                    if j < n {
                        assert(field_bit(v1, n as int, j) == byte_bit(self.bs.data@[idx as int], start % 8 + j));
                        assert((start + j) / 8 == idx && (start + j) % 8 == start % 8 + j);
                    } else {
                        assert(field_bit(val2, n2 as int, j - n) == byte_bit(self.bs.data@[idx + 1], (start + n) % 8 + (j - n)));
                        assert((start + j) / 8 == idx + 1 && (start + j) % 8 == j - n);
                    }
                }
                lemma_join_hi(v1, val2, n as u32, n2 as u32);
            }
        } else {
            proof {
                assert forall|j: int| 0 <= j < len implies field_bit(val, len as int, j) == bit_at(self.bs.data@, start + j) by {
                    assert((start + j) / 8 == idx && (start + j) % 8 == start % 8 + j);
                }
            }
        }
        self.pos += len;
        Some((val, len as u32))
    }
}

proof fn lemma_join(v1: u8, v2: u8, n: u32, n2: u32, j: u32)
    requires 1 <= n, 1 <= n2, n + n2 <= 8, j < n + n2, (n < 8 ==> (v1 >> (n as u8)) == 0u8), (n2 < 8 ==> (v2 >> (n2 as u8)) == 0u8)
    ensures
        field_bit((v1 << (n2 as u8)) | v2, (n + n2) as int, j as int)
            == (if j < n { field_bit(v1, n as int, j as int) } else { field_bit(v2, n2 as int, (j - n) as int) })
{
    assert(1 <= n && 1 <= n2 && n + n2 <= 8 && j < n + n2 && (n < 8 ==> (v1 >> (n as u8)) == 0u8) && (n2 < 8 ==> (v2 >> (n2 as u8)) == 0u8) ==>
        ((((((v1 << (n2 as u8)) | v2) >> ((n + n2 - 1 - j) as u8)) & 1u8) == 1u8)
            == (if j < n { ((v1 >> ((n - 1 - j) as u8)) & 1u8) == 1u8 } else { ((v2 >> ((n2 - 1 - (j - n)) as u8)) & 1u8) == 1u8 }))) by (bit_vector);
}

proof fn lemma_join_hi(v1: u8, v2: u8, n: u32, n2: u32)
    requires 1 <= n, 1 <= n2, n + n2 <= 8, (n < 8 ==> (v1 >> (n as u8)) == 0u8), (n2 < 8 ==> (v2 >> (n2 as u8)) == 0u8)
    ensures n + n2 < 8 ==> (((v1 << (n2 as u8)) | v2) >> ((n + n2) as u8)) == 0u8
{
    assert(1 <= n && 1 <= n2 && n + n2 < 8 && (v1 >> (n as u8)) == 0u8 && (v2 >> (n2 as u8)) == 0u8 ==>
        (((v1 << (n2 as u8)) | v2) >> ((n + n2) as u8)) == 0u8) by (bit_vector);
}

} // verus!
fn main() {}
