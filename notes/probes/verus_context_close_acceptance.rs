use vstd::prelude::*;
verus! {
#[verifier::external_body] pub struct Xstr { _p: u8 }
#[verifier::external_body] pub struct Xsubstr { _p: u8 }
#[verifier::external_body] pub struct Cell { _p: u8 }
#[verifier::external_body] pub struct Opcode { _p: u8 }
pub enum Xerr { Unbalanced, Other }
impl Xerr { #[verifier::external_body] pub fn unbalanced_context() -> Xerr { unimplemented!() } }
pub type Xresult = Result<(), Xerr>;
pub type Xresult1<T> = Result<T, Xerr>;
pub const OK: Xresult = Ok(());

pub enum Entry { Constant(Cell), Variable(usize), Function { immediate: bool, len: Option<usize> } }
pub struct DictEntry { name: Xstr, entry: Entry }
pub struct FunctionFlow { dict_idx: usize }
pub enum Flow { If(usize), Fun(FunctionFlow), Vec }

#[derive(PartialEq, Eq, Structural, Clone, Copy)]
pub enum ContextMode { Compile, Eval, MetaEval }

pub struct Context {
    ds_len: usize, cs_len: usize, rs_len: usize, fs_len: usize, ls_len: usize, ss_ptr: usize, di_len: usize,
    ip: usize, mode: ContextMode,
}

pub struct State {
    dict: Vec<DictEntry>,
    code: Vec<Opcode>,
    debug_map: Vec<Xsubstr>,
    data_stack: Vec<Cell>,
    flow_stack: Vec<Flow>,
    ctx: Context,
    nested: Vec<Context>,
}

impl State {
    #[verifier::external_body] pub fn run(&mut self) -> Xresult { unimplemented!() }
    #[verifier::external_body] pub fn pop_data(&mut self) -> Xresult1<Cell> { unimplemented!() }
    #[verifier::external_body] fn code_emit_value(&mut self, val: Cell) -> Xresult { unimplemented!() }

    #[verifier::exec_allows_no_decreases_clause]
    fn context_close(&mut self) -> Xresult {
        let mut prev = self
            .nested
            .pop()
            .ok_or_else(|| Xerr::unbalanced_context())?;
        if self.ctx.mode == ContextMode::Eval {
            self.run()?;
            if prev.mode == ContextMode::Eval {
                // preserve current ip value
                prev.ip = self.ctx.ip;
            }
        } else if self.ctx.mode == ContextMode::MetaEval {
            self.run()?;
            // purge meta context code after evaluation
            self.code.truncate(self.ctx.cs_len);
            self.debug_map.truncate(self.ctx.cs_len);
            // remove non-constant words
            let mut i = self.ctx.di_len;
            while i < self.dict.len() {
                if let Entry::Constant(_) = &self.dict[i].entry {
                    i += 1;
                } else {
                    self.dict.swap_remove(i);
                }
            }
            let is_building_fun = match self.flow_stack[prev.fs_len..].last() {
                Some(Flow::Fun { .. }) => true,
                _ => false,
            };
            if prev.mode != ContextMode::MetaEval || is_building_fun {
                // emit meta-evaluation result
                while self.data_stack.len() > self.ctx.ds_len {
                    let val = self.pop_data()?;
                    self.code_emit_value(val)?;
                }
            }
        }
        self.ctx = prev;
        OK
    }

    fn has_pending_flow(&self) -> bool {
        assert!(self.ctx.fs_len <= self.flow_stack.len());
        self.flow_stack.len() > self.ctx.fs_len
    }

}
} // verus!
fn main() {}
