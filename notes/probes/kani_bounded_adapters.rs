// appended to src/bitstr.rs in a scratch copy (see DESIGN.md section 1).
// eq_with_is_sequence_equality: 2 x 3 symbolic bytes, symbolic ranges: SUCCESSFUL, 66 s.
// detach_shared_preserves_bits with a *symbolic* (start,end): killed after > 5 min / 9 GB
//   => bounded stand-ins are indexed by concrete (start,end) and keep only the bytes symbolic.
#[cfg(kani)]
mod verif_kani {
    use super::*;
    const NB: usize = 3;
    fn any_bitstr() -> Bitstr {
        let bytes: [u8; NB] = kani::any();
        let start: usize = kani::any();
        let end: usize = kani::any();
        kani::assume(start <= end && end <= NB * 8);
        Bitstr { range: start..end, data: Rc::new(Cow::Owned(bytes.to_vec())) }
    }
    fn ref_bit(bs: &Bitstr, i: usize) -> u8 {
        let p = bs.range.start + i;
        (bs.data[p / 8] >> (7 - (p % 8))) & 1
    }
    #[kani::proof]
    #[kani::unwind(26)]
    fn eq_with_is_sequence_equality() {
        let a = any_bitstr();
        let b = any_bitstr();
        let r = a.eq_with(&b);
        if r {
            assert!(a.len() == b.len());
            let i: usize = kani::any();
            kani::assume(i < a.len());
            assert!(ref_bit(&a, i) == ref_bit(&b, i));
        } else if a.len() == b.len() {
            let mut diff = false;
            let mut i = 0;
            while i < a.len() {
                if ref_bit(&a, i) != ref_bit(&b, i) { diff = true; }
                i += 1;
            }
            assert!(diff);
        }
        std::mem::forget(a);
        std::mem::forget(b);
    }
}
