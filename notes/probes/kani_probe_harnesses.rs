// ---- appended to opcodes.rs ----
#[cfg(kani)]
mod verif_kani {
    use super::*;

    // contract of the jump codec: decoding at the origin yields the destination
    #[kani::proof]
    fn jump_codec_inverse() {
        let origin: usize = kani::any();
        let dest: usize = kani::any();
        kani::assume(origin <= (1usize << 30) && dest <= (1usize << 30));
        let rel = RelativeJump::from_to(origin, dest);
        assert!(rel.calculate(origin) == dest);
    }

    /// Test generated for harness `opcodes::verif_kani::jump_codec_inverse`
    ///
    /// Check for `assertion`: "assertion failed: rel.calculate(origin) == dest"

    #[test]
    fn kani_concrete_playback_jump_codec_inverse_4595292660661140528() {
        let concrete_vals: Vec<Vec<u8>> = vec![
        // 0ul
        vec![0, 0, 0, 0, 0, 0, 0, 0],
        // 0ul
        vec![0, 0, 0, 0, 0, 0, 0, 0],
    ];
    kani::concrete_playback_run(concrete_vals, jump_codec_inverse);
}
}

// ---- appended to state.rs ----
#[cfg(kani)]
mod verif_kani {
    use super::*;

    #[kani::proof]
    fn relative_index_contract() {
        let len: usize = kani::any();
        let index: isize = kani::any();
        let r = relative_index(len, index);
        if index >= 0 {
            assert!(r == if (index as usize) < len { Some(index as usize) } else { None });
        } else {
            let back = index.unsigned_abs();
            assert!(r == if back <= len { Some(len - back) } else { None });
        }
    }

    #[kani::proof]
    fn slicing_index_contract() {
        let len: usize = kani::any();
        let idx: isize = kani::any();
        let r = slicing_index(idx, len);
        assert!(r <= len);
        if idx >= 0 {
            assert!(r == (idx as usize).min(len));
        } else {
            assert!(r == len - idx.unsigned_abs().min(len));
        }
    }
}

