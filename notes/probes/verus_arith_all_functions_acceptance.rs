use vstd::prelude::*;
use std::rc::Rc;
use std::cmp::Ordering;
verus! {

// ---------- preamble: opaque leaf types ----------
#[verifier::external_body] pub struct Xstr { _p: u8 }
#[verifier::external_body] pub struct Xvec { _p: u8 }
#[verifier::external_body] pub struct Xmap { _p: u8 }
#[verifier::external_body] pub struct Xfn { _p: u8 }
#[verifier::external_body] pub struct Xbitstr { _p: u8 }
#[verifier::external_body] pub struct Xanyrc { _p: u8 }
pub type Xint = i128;
pub type Xreal = f64;
#[verifier::external_body] fn lit_num() -> Xstr { unimplemented!() }
#[verifier::external_body] fn xstr_lit_int() -> Xstr { unimplemented!() }
#[verifier::external_body] fn xstr_lit_real() -> Xstr { unimplemented!() }

pub struct WithTag {
    tags: Xmap,
    value: Cell,
}

pub enum Cell {
    Nil,
    Flag(bool),
    Int(Xint),
    Real(Xreal),
    Str(Xstr),
    Vector(Xvec),
    Map(Xmap),
    Fun(Xfn),
    Bitstr(Xbitstr),
    AnyRc(Xanyrc),
    WithTag(Rc<WithTag>),
}

impl Clone for Cell {
    #[verifier::external_body]
    fn clone(&self) -> (r: Self) ensures r == *self { unimplemented!() }
}

pub enum Xerr {
    StackUnderflow,
    DivisionByZero,
    IntegerOverflow,
    TypeErrorMsg { val: Cell, msg: Xstr },
}
pub type Xresult = Result<(), Xerr>;
pub type Xresult1<T> = Result<T, Xerr>;
pub const OK: Xresult = Ok(());

fn cell_type_error(msg: Xstr, val: Cell) -> (r: Xerr)
    ensures r == (Xerr::TypeErrorMsg { msg, val })
{
    Xerr::TypeErrorMsg { msg, val }
}

pub closed spec fn strip(c: Cell) -> Cell {
    match c { Cell::WithTag(rc) => rc.value, _ => c }
}

impl Cell {
    pub fn value(&self) -> (r: &Cell)
        ensures *r == strip(*self)
    {
        match self {
            Cell::WithTag(rc) => &rc.value,
            _ => self,
        }
    }

    pub fn to_xint(&self) -> (r: Xresult1<Xint>)
        ensures
            strip(*self) is Int ==> r == Ok::<Xint, Xerr>(strip(*self)->Int_0),
            !(strip(*self) is Int) ==> r is Err && r->Err_0 is TypeErrorMsg && r->Err_0->val == strip(*self),
    {
        match self.value() {
            Cell::Int(x) => Ok(*x),
            val => Err(cell_type_error(xstr_lit_int(), val.clone())),
        }
    }
}

pub assume_specification [ <i128>::checked_neg ] (a: i128) -> (r: Option<i128>)
    ensures a == i128::MIN ==> r is None, a != i128::MIN ==> r == Some((0 - a) as i128);

pub assume_specification [ <i128>::abs ] (a: i128) -> (r: i128) requires a != i128::MIN;
pub assume_specification [ <f64>::abs ] (a: f64) -> f64;
pub assume_specification [ <f64>::min ] (a: f64, b: f64) -> f64;
pub assume_specification [ <f64>::max ] (a: f64, b: f64) -> f64;
pub assume_specification [ <f64>::round ] (a: f64) -> f64;
pub assume_specification [ <i128>::wrapping_rem ] (a: i128, b: i128) -> i128 requires b != 0;
pub assume_specification [ <i128>::count_ones ] (a: i128) -> u32;
pub assume_specification [ <f64 as core::ops::Rem>::rem ] (a: f64, b: f64) -> f64;
// ---------- State facade (contracts proved in unit C) ----------
pub struct State { pub ghost_stack: Ghost<Seq<Cell>> }
pub const TRUE: Cell = Cell::Flag(true);
pub const FALSE: Cell = Cell::Flag(false);
impl State {
    pub closed spec fn vis(&self) -> Seq<Cell> { self.ghost_stack@ }
    #[verifier::external_body]
    pub fn pop_data(&mut self) -> (r: Xresult1<Cell>)
        ensures
            old(self).vis().len() == 0 ==> r is Err && r->Err_0 is StackUnderflow && final(self).vis() == old(self).vis(),
            old(self).vis().len() > 0 ==> r == Ok::<Cell, Xerr>(old(self).vis().last()) && final(self).vis() == old(self).vis().drop_last(),
    { unimplemented!() }
    #[verifier::external_body]
    pub fn push_data(&mut self, c: Cell) -> (r: Xresult)
        ensures r is Ok ==> final(self).vis() == old(self).vis().push(c),
                r is Err ==> final(self).vis() == old(self).vis(),
    { unimplemented!() }
}

#[verifier::external_body] fn f64_neg(a: f64) -> f64 { -a }

impl Cell {
    #[verifier::external_body] pub fn to_real(&self) -> Xresult1<Xreal> { unimplemented!() }
    #[verifier::external_body] pub fn to_bool(&self) -> Xresult1<bool> { unimplemented!() }
}
impl From<i128> for Cell { fn from(x: i128) -> Self { Cell::Int(x) } }
impl From<f64> for Cell { fn from(x: f64) -> Self { Cell::Real(x) } }
impl From<u32> for Cell { fn from(x: u32) -> Self { Cell::Int(x as Xint) } }
impl From<bool> for Cell { fn from(x: bool) -> Self { if x { TRUE } else { FALSE } } }
impl State {
    #[verifier::external_body] pub fn top_data(&self) -> Xresult1<&Cell> { unimplemented!() }
}
// ---------- extracted: src/arith.rs ----------
fn arithmetic_ops_int(xs: &mut State, ops_int: impl Fn(Xint, Xint) -> Xint) -> Xresult {
    let b = xs.pop_data()?.to_xint()?;
    let a = xs.pop_data()?.to_xint()?;
    let c = ops_int(a, b);
    xs.push_data(Cell::Int(c))
}

fn arithmetic_ops_real(
    xs: &mut State,
    ops_int: impl Fn(Xint, Xint) -> Xint,
    ops_real: impl Fn(Xreal, Xreal) -> Xreal,
) -> Xresult {
    let b = xs.pop_data()?;
    let a = xs.pop_data()?;
    match b.value() {
        Cell::Int(b) => {
            let a = a.to_xint()?;
            let c = Cell::from(ops_int(a, *b));
            xs.push_data(c)
        }
        Cell::Real(b) => {
            let a = a.to_real()?;
            let c = Cell::from(ops_real(a, *b));
            xs.push_data(c)
        }
        _ => Err(Xerr::TypeErrorMsg {
            msg: lit_num(),
            val: b,
        }),
    }
}

fn num_type_error(val: Cell) -> Xerr {
    Xerr::TypeErrorMsg {
        msg: lit_num(),
        val,
    }
}

fn core_word_add(xs: &mut State) -> Xresult {
    arithmetic_ops_real(xs, Xint::wrapping_add, std::ops::Add::<Xreal>::add)
}

fn core_word_sub(xs: &mut State) -> Xresult {
    arithmetic_ops_real(xs, Xint::wrapping_sub, std::ops::Sub::<Xreal>::sub)
}

fn core_word_mul(xs: &mut State) -> Xresult {
    arithmetic_ops_real(xs, Xint::wrapping_mul, std::ops::Mul::<Xreal>::mul)
}

fn core_word_div(xs: &mut State) -> Xresult {
    let b = xs.pop_data()?;
    let a = xs.pop_data()?;
    match b.value() {
        Cell::Int(b) => {
            let a = a.to_xint()?;
            if *b == 0 {
                Err(Xerr::DivisionByZero)
            } else {
                let c = Cell::from(a / *b);
                xs.push_data(c)
            }
        }
        Cell::Real(b) => {
            let a = a.to_real()?;
            if *b == 0.0 {
                Err(Xerr::DivisionByZero)
            } else {
                let c = Cell::from(a / *b);
                xs.push_data(c)
            }
        }
        _ => Err(num_type_error(b)),
    }
}

fn core_word_neg(xs: &mut State) -> Xresult {
    let a = xs.pop_data()?;
    match a.value() {
        Cell::Int(a) => {
            let neg = a.checked_neg().ok_or_else(|| Xerr::IntegerOverflow)?;
            xs.push_data(Cell::Int(neg))
        }
        Cell::Real(a) => xs.push_data(Cell::Real(f64_neg(*a))),
        _ => Err(num_type_error(a)),
    }
}

fn core_word_abs(xs: &mut State) -> Xresult {
    let a = xs.pop_data()?;
    match a.value() {
        Cell::Int(a) => xs.push_data(Cell::Int(a.abs())),
        Cell::Real(a) => xs.push_data(Cell::Real(a.abs())),
        _ => Err(num_type_error(a)),
    }
}

fn compare_reals(a: Xreal, b: Xreal) -> Ordering {
    if a < b {
        Ordering::Less
    } else if a > b {
        Ordering::Greater
    } else {
        Ordering::Equal
    }
}

fn compare_cells(xs: &mut State) -> Xresult1<Ordering> {
    let b = xs.pop_data()?;
    let a = xs.pop_data()?;
    match b.value() {
        Cell::Int(b) => {
            let a = a.to_xint()?;
            Ok(a.cmp(b))
        }
        Cell::Real(b) => {
            let a = a.to_real()?;
            Ok(compare_reals(a, *b))
        }
        _ => Err(num_type_error(b)),
    }
}

fn core_word_into_real(xs: &mut State) -> Xresult {
    match xs.top_data()?.value() {
        Cell::Real(_) => OK,
        _ => {
            let a = xs.pop_data()?.to_xint()?;
            xs.push_data(Cell::from(a as Xreal))
        }
    }
}

fn core_word_into_int(xs: &mut State) -> Xresult {
    match xs.top_data()?.value() {
        Cell::Int(_) => OK,
        _ => {
            let a = xs.pop_data()?.to_real()?;
            xs.push_data(Cell::from(a as Xint))
        }
    }
}

fn core_word_is_zero(xs: &mut State) -> Xresult {
    match xs.pop_data()?.value() {
        Cell::Int(a) => {
            let flag = Cell::from(*a == 0);
            xs.push_data(flag)
        }
        Cell::Real(a) => {
            let flag = Cell::from(*a == 0.0);
            xs.push_data(flag)
        }
        _ => {
            let val = xs.top_data()?.clone();
            Err(num_type_error(val))
        }
    }
}

fn core_word_is_positive(xs: &mut State) -> Xresult {
    match xs.pop_data()?.value() {
        Cell::Int(a) => {
            let flag = Cell::from(*a > 0);
            xs.push_data(flag)
        }
        Cell::Real(a) => {
            let flag = Cell::from(*a > 0.0);
            xs.push_data(flag)
        }
        _ => {
            let val = xs.top_data()?.clone();
            Err(num_type_error(val))
        }
    }
}

fn core_word_is_negative(xs: &mut State) -> Xresult {
    match xs.pop_data()?.value() {
        Cell::Int(a) => {
            let flag = Cell::from(*a < 0);
            xs.push_data(flag)
        }
        Cell::Real(a) => {
            let flag = Cell::from(*a < 0.0);
            xs.push_data(flag)
        }
        _ => {
            let val = xs.top_data()?.clone();
            Err(num_type_error(val))
        }
    }
}









fn core_word_min(xs: &mut State) -> Xresult {
    arithmetic_ops_real(xs, |a, b| a.min(b), |a, b| a.min(b))
}

fn core_word_max(xs: &mut State) -> Xresult {
    arithmetic_ops_real(xs, |a, b| a.max(b), |a, b| a.max(b))
}

fn core_word_rem(xs: &mut State) -> Xresult {
    arithmetic_ops_real(xs, Xint::wrapping_rem, std::ops::Rem::<f64>::rem)
}

fn core_word_bitand(xs: &mut State) -> Xresult {
    arithmetic_ops_int(xs, std::ops::BitAnd::<Xint>::bitand)
}

fn core_word_bitor(xs: &mut State) -> Xresult {
    arithmetic_ops_int(xs, std::ops::BitOr::<Xint>::bitor)
}

fn core_word_bitxor(xs: &mut State) -> Xresult {
    arithmetic_ops_int(xs, std::ops::BitXor::<Xint>::bitxor)
}

fn core_word_bitshl(xs: &mut State) -> Xresult {
    arithmetic_ops_int(xs, |a, b| Xint::wrapping_shl(a, b as u32))
}

fn core_word_bitshr(xs: &mut State) -> Xresult {
    arithmetic_ops_int(xs, |a, b| Xint::wrapping_shr(a, b as u32))
}

fn core_word_bitnot(xs: &mut State) -> Xresult {
    let a = xs.pop_data()?.to_xint()?;
    xs.push_data(Cell::from(!a))
}

fn core_word_round(xs: &mut State) -> Xresult {
    let x = xs.pop_data()?.to_real()?;
    xs.push_data(Cell::from(x.round()))
}

fn core_word_popcnt(xs: &mut State) -> Xresult {
    let x = xs.pop_data()?.to_xint()?;
    xs.push_data(Cell::from(x.count_ones()))
}
} // verus!
fn main() {}
