use vstd::prelude::*;
verus! {
pub enum ReverseStep { SetIp(usize), PopData }
pub struct State { pub reverse_log: Option<Vec<ReverseStep>>, pub ip: usize, pub n: usize }
impl State {
    pub open spec fn log(&self) -> Seq<ReverseStep> { match self.reverse_log { Some(l) => l@, None => Seq::empty() } }
    fn add_reverse_step(&mut self, step: ReverseStep)
        ensures final(self).log() == (if old(self).reverse_log is Some { old(self).log().push(step) } else { old(self).log() }), final(self).ip == old(self).ip
    {
        if let Some(log) = self.reverse_log.as_mut() {
            log.push(step);
        }
    }
    fn reverse_changes(&mut self, r: ReverseStep)
        ensures final(self).log() == old(self).log()
    {
        match r { ReverseStep::SetIp(ip) => { self.ip = ip; } ReverseStep::PopData => { } }
    }
    #[verifier::exec_allows_no_decreases_clause]
    pub fn rnext(&mut self)
        ensures final(self).log().len() <= old(self).log().len()
    {
        let pop = |xs: &mut State| xs.reverse_log.as_mut().and_then(|log| log.pop());
        if let Some(r) = pop(self) {
            self.reverse_changes(r);
        }
        while let Some(step) = pop(self) {
            match &step {
                ReverseStep::SetIp { .. } => {
                    self.add_reverse_step(step);
                    break;
                }
                _ => self.reverse_changes(step),
            }
        }
    }
}
}
fn main() {}
