use vstd::prelude::*;
use std::rc::Rc;
verus! {

// ---------- preamble: opaque leaf types ----------
#[verifier::external_body] pub struct Xstr { _p: u8 }
#[verifier::external_body] pub struct Xvec { _p: u8 }
#[verifier::external_body] pub struct Xmap { _p: u8 }
#[verifier::external_body] pub struct Xfn { _p: u8 }
#[verifier::external_body] pub struct Xbitstr { _p: u8 }
#[verifier::external_body] pub struct Xanyrc { _p: u8 }
pub type Xint = i128;
pub type Xreal = f64;
#[verifier::external_body] fn xstr_lit_num() -> Xstr { unimplemented!() }
#[verifier::external_body] fn xstr_lit_int() -> Xstr { unimplemented!() }
#[verifier::external_body] fn xstr_lit_real() -> Xstr { unimplemented!() }

pub struct WithTag {
    tags: Xmap,
    value: Cell,
}

pub enum Cell {
    Nil,
    Flag(bool),
    Int(Xint),
    Real(Xreal),
    Str(Xstr),
    Vector(Xvec),
    Map(Xmap),
    Fun(Xfn),
    Bitstr(Xbitstr),
    AnyRc(Xanyrc),
    WithTag(Rc<WithTag>),
}

impl Clone for Cell {
    #[verifier::external_body]
    fn clone(&self) -> (r: Self) ensures r == *self { unimplemented!() }
}

pub enum Xerr {
    StackUnderflow,
    DivisionByZero,
    IntegerOverflow,
    TypeErrorMsg { val: Cell, msg: Xstr },
}
pub type Xresult = Result<(), Xerr>;
pub type Xresult1<T> = Result<T, Xerr>;

fn cell_type_error(msg: Xstr, val: Cell) -> (r: Xerr)
    ensures r == (Xerr::TypeErrorMsg { msg, val })
{
    Xerr::TypeErrorMsg { msg, val }
}

pub closed spec fn strip(c: Cell) -> Cell {
    match c { Cell::WithTag(rc) => rc.value, _ => c }
}

impl Cell {
    pub fn value(&self) -> (r: &Cell)
        ensures *r == strip(*self)
    {
        match self {
            Cell::WithTag(rc) => &rc.value,
            _ => self,
        }
    }

    pub fn to_xint(&self) -> (r: Xresult1<Xint>)
        ensures
            strip(*self) is Int ==> r == Ok::<Xint, Xerr>(strip(*self)->Int_0),
            !(strip(*self) is Int) ==> r is Err && r->Err_0 is TypeErrorMsg && r->Err_0->val == strip(*self),
    {
        match self.value() {
            Cell::Int(x) => Ok(*x),
            val => Err(cell_type_error(xstr_lit_int(), val.clone())),
        }
    }
}

pub assume_specification [ <i128>::checked_neg ] (a: i128) -> (r: Option<i128>)
    ensures a == i128::MIN ==> r is None, a != i128::MIN ==> r == Some((0 - a) as i128);
// ---------- State facade (contracts proved in unit C) ----------
pub struct State { pub ghost_stack: Ghost<Seq<Cell>> }
impl State {
    pub closed spec fn vis(&self) -> Seq<Cell> { self.ghost_stack@ }
    #[verifier::external_body]
    pub fn pop_data(&mut self) -> (r: Xresult1<Cell>)
        ensures
            old(self).vis().len() == 0 ==> r is Err && r->Err_0 is StackUnderflow && final(self).vis() == old(self).vis(),
            old(self).vis().len() > 0 ==> r == Ok::<Cell, Xerr>(old(self).vis().last()) && final(self).vis() == old(self).vis().drop_last(),
    { unimplemented!() }
    #[verifier::external_body]
    pub fn push_data(&mut self, c: Cell) -> (r: Xresult)
        ensures r is Ok ==> final(self).vis() == old(self).vis().push(c),
                r is Err ==> final(self).vis() == old(self).vis(),
    { unimplemented!() }
}

#[verifier::external_body] fn f64_neg(a: f64) -> f64 { -a }
// ---------- extracted: src/arith.rs ----------
fn core_word_neg(xs: &mut State) -> (r: Xresult)
    ensures
        old(xs).vis().len() > 0 && strip(old(xs).vis().last()) is Int && r is Ok ==>
            final(xs).vis() == old(xs).vis().drop_last().push(Cell::Int((0 - strip(old(xs).vis().last())->Int_0) as i128)),
        old(xs).vis().len() > 0 && strip(old(xs).vis().last()) is Int && strip(old(xs).vis().last())->Int_0 == i128::MIN ==>
            r is Err && r->Err_0 is IntegerOverflow,
{
    let a = xs.pop_data()?;
    match a.value() {
        Cell::Int(a) => {
            let neg = a.checked_neg().ok_or_else(|| Xerr::IntegerOverflow)?;
            xs.push_data(Cell::Int(neg))
        }
        Cell::Real(a) => xs.push_data(Cell::Real(f64_neg(*a))),
        _ => Err(num_type_error(a)),
    }
}

fn num_type_error(val: Cell) -> (r: Xerr)
    ensures r == (Xerr::TypeErrorMsg { msg: r->msg, val })
{
    Xerr::TypeErrorMsg {
        msg: xstr_lit_num(),
        val,
    }
}

} // verus!
fn main() {}
