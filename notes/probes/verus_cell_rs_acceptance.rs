use vstd::prelude::*;
use std::rc::Rc;
use std::cmp::Ordering;
verus! {
#[verifier::external_body] pub struct Xstr { _p: u8 }
impl Clone for Xstr { #[verifier::external_body] fn clone(&self) -> (r: Self) ensures r == *self { unimplemented!() } }
impl Xstr { #[verifier::external_body] pub fn as_str(&self) -> &str { unimplemented!() } }
impl PartialEq for Xstr { #[verifier::external_body] fn eq(&self, o: &Self) -> bool { unimplemented!() } }
impl PartialOrd for Xstr { #[verifier::external_body] fn partial_cmp(&self, o: &Self) -> Option<Ordering> { unimplemented!() } }
#[verifier::external_body] pub struct Xvec { _p: u8 }
impl Clone for Xvec { #[verifier::external_body] fn clone(&self) -> (r: Self) ensures r == *self { unimplemented!() } }
impl PartialEq for Xvec { #[verifier::external_body] fn eq(&self, o: &Self) -> bool { unimplemented!() } }
#[verifier::external_body] pub struct Xmap { _p: u8 }
impl Clone for Xmap { #[verifier::external_body] fn clone(&self) -> (r: Self) ensures r == *self { unimplemented!() } }
impl PartialEq for Xmap { #[verifier::external_body] fn eq(&self, o: &Self) -> bool { unimplemented!() } }
impl Xmap {
    #[verifier::external_body] pub fn new() -> Xmap { unimplemented!() }
    #[verifier::external_body] pub fn insert(&self, k: Cell, v: Cell) -> Xmap { unimplemented!() }
    #[verifier::external_body] pub fn remove(&self, k: &Cell) -> Xmap { unimplemented!() }
    #[verifier::external_body] pub fn get(&self, k: &Cell) -> Option<&Cell> { unimplemented!() }
}
#[verifier::external_body] pub struct Xfn { _p: u8 }
impl Clone for Xfn { #[verifier::external_body] fn clone(&self) -> (r: Self) ensures r == *self { unimplemented!() } }
impl PartialEq for Xfn { #[verifier::external_body] fn eq(&self, o: &Self) -> bool { unimplemented!() } }
#[verifier::external_body] pub struct Xbitstr { _p: u8 }
impl Clone for Xbitstr { #[verifier::external_body] fn clone(&self) -> (r: Self) ensures r == *self { unimplemented!() } }
impl PartialEq for Xbitstr { #[verifier::external_body] fn eq(&self, o: &Self) -> bool { unimplemented!() } }
#[verifier::external_body] pub struct Xanyrc { _p: u8 }
impl Clone for Xanyrc { #[verifier::external_body] fn clone(&self) -> (r: Self) ensures r == *self { unimplemented!() } }
pub type Xint = i128;
pub type Xreal = f64;
#[verifier::external_body] fn lit(n: u8) -> Xstr { unimplemented!() }

pub struct WithTag { tags: Xmap, value: Cell }
pub enum Cell {
    Nil, Flag(bool), Int(Xint), Real(Xreal), Str(Xstr), Vector(Xvec), Map(Xmap), Fun(Xfn),
    Bitstr(Xbitstr), AnyRc(Xanyrc), WithTag(Rc<WithTag>),
}
impl Clone for Cell { #[verifier::external_body] fn clone(&self) -> (r: Self) ensures r == *self { unimplemented!() } }
pub enum Xerr { TypeErrorMsg { val: Cell, msg: Xstr } }
pub type Xresult1<T> = Result<T, Xerr>;

fn cell_type_error(msg: Xstr, val: Cell) -> Xerr {
    Xerr::TypeErrorMsg { msg, val }
}

impl PartialEq for Cell {
    fn eq(&self, other: &Self) -> bool {
        match (self.value(), other.value()) {
            (Cell::Nil, Cell::Nil) => true,
            (Cell::Flag(a), Cell::Flag(b)) => a == b,
            (Cell::Int(a), Cell::Int(b)) => a == b,
            (Cell::Real(a), Cell::Real(b)) => a == b,
            (Cell::Str(a), Cell::Str(b)) => a == b,
            (Cell::Bitstr(a), Cell::Bitstr(b)) => a == b,
            (Cell::Vector(a), Cell::Vector(b)) => a == b,
            (Cell::Map(a), Cell::Map(b)) => a == b,
            (Cell::Fun(a), Cell::Fun(b)) => a == b,
            _ => false,
        }
    }
}

impl PartialOrd for Cell {
    fn partial_cmp(&self, other: &Cell) -> Option<Ordering> {
        match (self.value(), other.value()) {
            (Cell::Int(a), Cell::Int(b)) => a.partial_cmp(b),
            (Cell::Real(a), Cell::Real(b)) => a.partial_cmp(b),
            (Cell::Str(a), Cell::Str(b)) => a.partial_cmp(b),
            _ => None,
        }
    }
}

impl Ord for Cell {
    fn cmp(&self, other: &Cell) -> Ordering {
        self.partial_cmp(other).unwrap_or(Ordering::Equal)
    }
}
impl Eq for Cell {}

impl Cell {
    pub fn type_name(&self) -> Xstr {
        match self {
            Cell::Nil { .. } => lit(0),
            Cell::Flag { .. } => lit(1),
            Cell::Int { .. } => lit(2),
            Cell::Real { .. } => lit(3),
            Cell::Str { .. } => lit(4),
            Cell::Vector { .. } => lit(5),
            Cell::Map { .. } => lit(6),
            Cell::Fun { .. } => lit(7),
            Cell::Bitstr { .. } => lit(8),
            Cell::AnyRc { .. } => lit(9),
            Cell::WithTag { .. } => lit(10),
        }
    }

    pub fn to_bool(&self) -> Xresult1<bool> {
        match self.value() {
            Cell::Flag(x) => Ok(*x),
            _ => Err(cell_type_error(lit(1), self.clone())),
        }
    }

    pub fn cond_true(&self) -> Xresult1<bool> {
        match self.value() {
            Cell::Nil => Ok(false),
            _ => self.to_bool(),
        }
    }

    pub fn insert_tag(&self, key: Cell, val: Cell) -> Cell {
        let new_tags = if let Some(tags) = self.tags() {
            tags.insert(key, val)
        } else {
            Xmap::new().insert(key, val)
        };
        self.with_tags(new_tags)
    }

    pub fn remove_tag(&self, key: &Cell) -> Cell {
        let new_tags = if let Some(tags) = self.tags() {
            tags.remove(key)
        } else {
            Xmap::new()
        };
        self.with_tags(new_tags)
    }

    pub fn get_tag(&self, key: &Cell) -> Option<&Cell> {
        self.tags().and_then(|tags| tags.get(key))
    }

    pub fn tags(&self) -> Option<&Xmap> {
        match self {
            Cell::WithTag(rc) => Some(&rc.tags),
            _ => None,
        }
    }

    pub fn with_tags(&self, tags: Xmap) -> Cell {
        Cell::WithTag(Rc::new(WithTag { value: self.value().clone(), tags }))
    }

    pub fn value(&self) -> &Cell {
        match self {
            Cell::WithTag(rc) => &rc.value,
            _ => self,
        }
    }

    pub fn as_map(&self) -> Xresult1<&Xmap> {
        match self.value() {
            Cell::Map(m) => Ok(m),
            val => Err(cell_type_error(lit(6), val.clone())),
        }
    }

    pub fn to_map(&self) -> Xresult1<Xmap> {
        match self.value() {
            Cell::Map(m) => Ok(m.clone()),
            val => Err(cell_type_error(lit(6), val.clone())),
        }
    }

    pub fn vec(&self) -> Xresult1<&Xvec> {
        match self.value() {
            Cell::Vector(x) => Ok(x),
            val => Err(cell_type_error(lit(5), val.clone())),
        }
    }

    pub fn to_vec(&self) -> Xresult1<Xvec> {
        match self.value() {
            Cell::Vector(x) => Ok(x.clone()),
            val => Err(cell_type_error(lit(5), val.clone())),
        }
    }

    pub fn str(&self) -> Xresult1<&str> {
        match self.value() {
            Cell::Str(x) => Ok(x.as_str()),
            val => Err(cell_type_error(lit(4), val.clone())),
        }
    }

    pub fn to_xstr(&self) -> Xresult1<Xstr> {
        match self.value() {
            Cell::Str(x) => Ok(x.clone()),
            val => Err(cell_type_error(lit(4), val.clone())),
        }
    }

    pub fn to_real(&self) -> Xresult1<Xreal> {
        match self.value() {
            Cell::Real(x) => Ok(*x),
            val => Err(cell_type_error(lit(3), val.clone())),
        }
    }

    pub fn to_any(&self) -> Xresult1<Xanyrc> {
        match self.value() {
            Cell::AnyRc(rc) => Ok(rc.clone()),
            val => Err(cell_type_error(lit(9), val.clone())),
        }
    }

    pub fn to_xint(&self) -> Xresult1<Xint> {
        match self.value() {
            Cell::Int(x) => Ok(*x),
            val => Err(cell_type_error(lit(2), val.clone())),
        }
    }
    pub fn to_isize(&self) -> Xresult1<isize> {
        match self.value() {
            Cell::Int(i) => Ok(*i as isize),
            val => Err(cell_type_error(lit(2), val.clone())),
        }
    }

    pub fn to_usize(&self) -> Xresult1<usize> {
        match self.value() {
            Cell::Int(i) if *i < 0 =>
                Err(cell_type_error(lit(99), self.clone())),
            Cell::Int(i) => Ok(*i as usize),
            val => Err(cell_type_error(lit(2), val.clone())),
        }
    }

    pub fn bitstr(&self) -> Xresult1<&Xbitstr> {
        match self.value() {
            Cell::Bitstr(s) => Ok(s),
            val => Err(cell_type_error(lit(8), val.clone())),
        }
    }

    pub fn to_bitstr(&self) -> Xresult1<Xbitstr> {
        match self.value() {
            Cell::Bitstr(s) => Ok(s.clone()),
            val => Err(cell_type_error(lit(8), val.clone())),
        }
    }

    pub fn to_fn(&self) -> Xresult1<Xfn> {
        match self.value() {
            Cell::Fun(f) => Ok(f.clone()),
            val => Err(cell_type_error(lit(7), val.clone())),
        }
    }


}
} // verus!
fn main() {}
