use vstd::prelude::*;
verus! {
pub type Xint = i128;
pub type Xreal = f64;
pub assume_specification [ <i128>::wrapping_rem ] (a: i128, b: i128) -> (r: i128)
    requires b != 0
    ensures r as int == (if a == i128::MIN && b == -1 { 0 } else { a as int - b as int * ((a as int) / (b as int)) });
pub assume_specification [ <i128>::abs ] (a: i128) -> (r: i128)
    requires a != i128::MIN
    ensures r as int == (if a < 0 { -(a as int) } else { a as int });


fn apply(a: Xint, b: Xint, ops_int: impl Fn(Xint, Xint) -> Xint) -> (c: Xint)
    requires ops_int.requires((a, b))
    ensures ops_int.ensures((a, b), c)
{
    ops_int(a, b)
}

fn add(a: Xint, b: Xint) -> (c: Xint)
{
    apply(a, b, Xint::wrapping_add)
}

fn fadd(a: f64, b: f64) -> f64 {
    a + b
}
fn fcmp(a: f64, b: f64) -> bool {
    a < b
}
fn div(a: Xint, b: Xint) -> Xint
    requires b != 0
{
    a / b
}
fn rem(a: Xint, b: Xint) -> Xint
{
    a.wrapping_rem(b)
}
fn abs(a: Xint) -> Xint
{
    a.abs()
}
fn toint(a: f64) -> Xint
{
    a as Xint
}
} // verus!
fn main() {}
