use vstd::prelude::*;
use std::rc::Rc;
use std::borrow::Cow;
use std::ops::Range;
verus! {

type BitstrRange = Range<usize>;

#[verifier::allow(autoderive_clone_without_spec)]
#[derive(Default)]
pub struct Bitstr {
    range: BitstrRange,
    data: Rc<Cow<'static, [u8]>>,
}

impl Clone for Bitstr {
    #[verifier::external_body]
    fn clone(&self) -> (r: Self)
        ensures r == *self
    {
        Bitstr { range: self.range.clone(), data: self.data.clone() }
    }
}

pub open spec fn bit_at(s: Seq<u8>, pos: int) -> bool {
    (s[pos / 8] >> ((7 - pos % 8) as u8)) & 1 == 1
}

impl Bitstr {
    pub closed spec fn bytes(&self) -> Seq<u8> { self.data@ }
    pub closed spec fn wf(&self) -> bool {
        self.range.start <= self.range.end && self.range.end <= 8 * self.bytes().len()
    }
    pub closed spec fn s(&self) -> int { self.range.start as int }
    pub closed spec fn e(&self) -> int { self.range.end as int }
    // abstract value
    pub closed spec fn view(&self) -> Seq<bool> {
        Seq::new((self.range.end - self.range.start) as nat, |i: int| bit_at(self.bytes(), self.range.start + i))
    }

    // ---- verbatim from src/bitstr.rs ----
    pub fn seek(&self, pos: usize) -> (r: Option<Bitstr>)
        requires self.wf()
        ensures
            (self.s() <= pos <= self.e()) <==> r is Some,
            r is Some ==> r->0.wf() && r->0.view() == self.view().subrange(pos - self.s(), self.view().len() as int),
    {
        if self.range.start <= pos && pos <= self.range.end {
            let mut s = self.clone();
            s.range.start = pos;
            Some(s)
        } else {
            None
        }
    }

    pub fn read(&mut self, num_bits: usize) -> (r: Option<Bitstr>)
        requires old(self).wf()
        ensures
            final(self).wf(),
            (num_bits <= old(self).view().len()) <==> r is Some,
            r is None ==> *final(self) == *old(self),
            r is Some ==> r->0.wf() && r->0.view() == old(self).view().subrange(0, num_bits as int)
                && final(self).view() == old(self).view().subrange(num_bits as int, old(self).view().len() as int),
    {
        let pos = self.range.start + num_bits;
        if pos > self.range.end {
            return None;
        }
        let mut result = self.clone();
        result.range.end = pos;
        self.range.start = pos;
        Some(result)
    }
}

} // verus!
fn main() {}
