#!/usr/bin/env python3
"""lib/lint_props.py: every function that is VERIFIED in some unit and tagged with property P must live in a unit that
the check of P runs (lib/props.py `verus_units`); otherwise its obligation would silently never be generated for P.
Exit 1 and a list when that is not so.  Run by lib/mkbaseline.py."""
import glob, os, re, sys
ROOT = os.path.dirname(os.path.dirname(os.path.abspath(__file__)))
sys.path.insert(0, os.path.join(ROOT, 'lib'))
import props

def main():
    contracts = {}
    for f in glob.glob(os.path.join(ROOT, 'contracts', '*.fns')):
        fn = os.path.basename(f)
        for m in re.finditer(r'^//@fn \S+ (\S+|"[^"]+"::\S+)(.*)$', open(f).read(), re.M):
            pm = re.search(r'props=(\S+)', m.group(2))
            contracts[(fn, m.group(1))] = (pm.group(1).split(',') if pm else [], ' assumed' in m.group(2))

    def uses(path):
        out = []
        for ln in open(path).read().split('\n'):
            s = ln.strip()
            m = re.match(r'^//@include (\S+)', s)
            if m:
                out += uses(os.path.join(ROOT, 'contracts', m.group(1)))
                continue
            m = re.match(r'^//@use (\S+) (.+)$', s)
            if m:
                rest = m.group(2).strip()
                assumed = rest.endswith(' assumed')
                out.append((m.group(1), rest[:-8].strip() if assumed else rest, assumed))
        return out

    where = {}     # (prop, key) -> set of units where it is verified
    for u in glob.glob(os.path.join(ROOT, 'units', '*.rs')):
        name = os.path.basename(u)[:-3]
        for (fn, key, assumed) in uses(u):
            c = contracts.get((fn, key))
            if not c or assumed or c[1]:
                continue
            for p in c[0]:
                where.setdefault((p, key), set()).add(name)
    bad = []
    for (p, key), us in sorted(where.items()):
        if p not in props.PROPS:
            continue
        run = set(props.PROPS[p].get('verus_units', []))
        if not (us & run):
            bad.append('%s: %s is verified only in unit(s) %s, none of which the check of %s runs' % (p, key, ', '.join(sorted(us)), p))
    for b in bad:
        print('LINT', b)
    return 1 if bad else 0

if __name__ == '__main__':
    sys.exit(main())
