#!/usr/bin/env python3
"""Regenerate baseline/obligations.json for both tiers WITHOUT running the back ends: the obligation
ids are determined by the unit templates (verified functions tagged with the property) and the
expanded Kani harness lists.  Run it on the unchanged tree after adding functions / harnesses."""
import json, os, re, sys
ROOT = os.path.dirname(os.path.dirname(os.path.abspath(__file__)))
sys.path.insert(0, os.path.join(ROOT, 'lib'))
import props as P
from assemble import assemble
import kani_run
from check import sanitize, load_known

import lint_props
if lint_props.main():
    print('lint failed: a verified function is tagged with a property whose check does not run its unit'); sys.exit(1)
base = {}
findings, _ = load_known()
known = set(f['obligation'] for f in findings)
cache = {}
for prop, cfg in sorted(P.PROPS.items()):
    for tier in ('quick', 'thorough'):
        ids = []
        for u in cfg.get('verus_units', []):
            if u not in cache:
                cache[u] = assemble(os.path.join(ROOT, 'units', u + '.rs'))[1]
            for m in cache[u]:
                if m['mode'] == 'verified' and prop in m.get('props', []):
                    ids.append('%s/verus/%s/%s' % (prop, u, sanitize(m['name'])))
        for g in cfg.get('kani_groups', []):
            _, _, hs = kani_run.expand_group(os.path.join(ROOT, 'kani', g), tier)
            for h in hs:
                if prop in h['props']:
                    ids.append('%s/kani/%s' % (prop, h['name']))
        base.setdefault(prop, {})[tier] = sorted(ids)
        print(prop, tier, len(ids))
os.makedirs(os.path.join(ROOT, 'baseline'), exist_ok=True)
json.dump(base, open(os.path.join(ROOT, 'baseline', 'obligations.json'), 'w'), indent=1, sort_keys=True)
