#!/usr/bin/env python3
"""Regenerate MANIFEST.json from lib/props.py (single source of truth)."""
import json, os, sys
ROOT = os.path.dirname(os.path.dirname(os.path.abspath(__file__)))
sys.path.insert(0, os.path.join(ROOT, 'lib'))
import props as P

checks = []
for pid in sorted(P.PROPS):
    c = P.PROPS[pid]
    checks.append(dict(
        property_id=pid,
        quick_cmd='bin/check %s --tier quick' % pid,
        thorough_cmd='bin/check %s --tier thorough' % pid,
        evidence_file='/verif/evidence/%s.json' % pid,
        replay_cmd_template='bin/check %s --replay {path}' % pid,
        engine='contracts',
        level_claimed=dict(category='proof', text=c['level_text'], design_ref=c['design_ref']),
        level_note=c['level_note'],
        technique=c['technique'],
    ))
na = [dict(property_id=k, reason=v) for k, v in sorted(P.NOT_APPLICABLE.items()) if k not in P.PROPS]
m = dict(
    version=1,
    setup_cmd='bin/setup',
    hooks=dict(
        guard='kani',
        enable='no hook commits: contracts live in /verif and are laid over functions cut out of /repo on every run; '
               'Kani harness modules are appended to a scratch copy of the working tree under #[cfg(kani)], a cfg only `cargo kani` sets',
        baseline_off_cmd='cd /repo && cargo test --workspace --no-fail-fast --offline',
        source_commits=[],
        add_only=True,
    ),
    engines=[dict(name='contracts', path='/verif/bin/check', serves_properties=sorted(P.PROPS),
                  kind_free_text='contract-based deductive verification: Verus (SMT, unbounded) on mechanically extracted '
                                 'functions + Kani/CBMC harnesses on the real crate (complete for loop-free and concrete-width '
                                 'members, bounded stand-ins labelled)')],
    checks=checks,
    not_applicable=na,
    notes='exit 0 = all obligations discharged; exit 1 = VIOLATION line; exit 2 = undecided (lost anchor, unsupported construct, '
          'rlimit, tool failure), never an alarm. KNOWN_FINDINGS.txt lists fixed defects and open findings.',
)
json.dump(m, open(os.path.join(ROOT, 'MANIFEST.json'), 'w'), indent=1)
print('MANIFEST.json: %d checks, %d not applicable' % (len(checks), len(na)))
