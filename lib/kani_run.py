"""Kani back end: inject harness modules into a scratch copy of /repo's working tree,
run `cargo kani`, parse per-harness results, and replay counterexamples natively.

A harness group is a Rust file under kani/ whose text is appended to one source file of
the scratch copy (so private items are reachable and no existing line changes):

  //@target src/bitstr.rs
  //@harness name=<fn> props=C05 kind=complete|bounded [note=...]
  //@family name=<prefix> fn=<generic fn> props=C05 kind=family|bounded unwind=<expr> P=<vals> Q=<vals>
        <vals> = 1-9,15,127  or  q:1-9,16;t:1-128   (quick / thorough tiers)
        expands to  #[kani::proof] #[kani::unwind(U)] fn <prefix>_P<p>_Q<q>() { <fn>::<p, q>() }
"""
import os, re, shutil, subprocess, time, itertools, json

ROOT = os.path.dirname(os.path.dirname(os.path.abspath(__file__)))
REPO = os.environ.get('VERIF_REPO', '/repo')
KANI_TARGET = os.environ.get('VERIF_KANI_TARGET', os.path.join(ROOT, '.cache', 'kani-target'))


class KaniError(Exception):
    pass


def parse_vals(spec, tier):
    if ';' in spec or spec.startswith('q:') or spec.startswith('t:'):
        parts = dict(p.split(':', 1) for p in spec.split(';'))
        spec = parts['t'] if tier == 'thorough' and 't' in parts else parts['q']
    out = []
    for tok in spec.split(','):
        if '-' in tok and not tok.startswith('-'):
            a, b = tok.split('-')
            out.extend(range(int(a), int(b) + 1))
        else:
            out.append(int(tok))
    return out


def expand_group(path, tier):
    """-> (target file, module text, [harness dicts])"""
    text = open(path).read()
    target = None
    out = []
    harnesses = []
    for ln in text.split('\n'):
        s = ln.strip()
        if s.startswith('//@target '):
            target = s.split()[1]
            continue
        if s.startswith('//@harness '):
            kv = dict(a.split('=', 1) for a in s[len('//@harness '):].split())
            harnesses.append(dict(name=kv['name'], props=kv['props'].split(','), kind=kv.get('kind', 'complete'),
                                  params={}, family=None, group=os.path.basename(path), target=target))
            out.append(ln)
            continue
        if s.startswith('//@family '):
            kv = dict(a.split('=', 1) for a in s[len('//@family '):].split())
            name, fn = kv.pop('name'), kv.pop('fn')
            props = kv.pop('props').split(',')
            kind = kv.pop('kind', 'family')
            unwind = kv.pop('unwind', None)
            skip = kv.pop('skip', None)
            lets = []
            for k in list(kv.keys()):
                if k.startswith('let.'):
                    lets.append((k[4:], kv.pop(k)))
            pnames = list(kv.keys())
            spaces = [parse_vals(kv[p], tier) for p in pnames]
            for combo in itertools.product(*spaces):
                env = dict(zip(pnames, combo))
                if skip and eval(skip, {}, dict(env)):
                    continue
                hname = name + ''.join('_%s%d' % (p, v) for p, v in env.items())
                for ln_, ex_ in lets:
                    env[ln_] = int(eval(ex_, {}, dict(env)))
                combo = tuple(env[k] for k in pnames + [l[0] for l in lets])
                attrs = '#[kani::proof] '
                if unwind:
                    attrs += '#[kani::unwind(%d)] ' % int(eval(unwind, {}, dict(env)))
                out.append('    %sfn %s() { %s::<%s>() }' % (attrs, hname, fn, ', '.join(str(v) for v in combo)))
                harnesses.append(dict(name=hname, props=props, kind=kind, params=env, family=name,
                                      group=os.path.basename(path), target=target))
            continue
        out.append(ln)
    if not target:
        raise KaniError('%s: no //@target' % path)
    return target, '\n'.join(out) + '\n', harnesses


def make_scratch():
    base = os.environ.get('XDG_RUNTIME_DIR') or '/var/tmp'
    d = os.path.join(base, 'xeh-verif.%d.%d' % (os.getpid(), int(time.time() * 1000) % 100000))
    os.makedirs(d)
    subprocess.run(['rsync', '-a', '--exclude', 'target', '--exclude', '.git', REPO + '/', d + '/'], check=True)
    return d


def parse_output(out, requested):
    """-> {harness: dict(status=ok|failed|undecided, detail=str, failed_checks=[..], time_s)}"""
    res = {h: dict(status='undecided', detail='no result reported', failed_checks=[], time_s=None) for h in requested}
    short = {}
    for h in requested:
        short[h] = h
    cur = {}      # thread -> harness
    blocks = {}   # harness -> [lines]
    thread = None
    for ln in out.split('\n'):
        m = re.match(r'^(?:Thread (\d+): )?Checking harness (\S+?)\.\.\.', ln)
        if m:
            t = m.group(1) or '0'
            full = m.group(2)
            name = full.split('::')[-1]
            cur[t] = name
            blocks.setdefault(name, [])
            thread = t
            continue
        m = re.match(r'^Thread (\d+):\s*(.*)$', ln)
        if m:
            thread = m.group(1)
            if thread in cur:
                blocks[cur[thread]].append(m.group(2))
            continue
        if thread is not None and thread in cur:
            blocks[cur[thread]].append(ln)
        elif '0' in cur:
            blocks[cur['0']].append(ln)
    for name, lines in blocks.items():
        if name not in res:
            continue
        txt = '\n'.join(lines)
        r = res[name]
        m = re.search(r'Verification Time: ([0-9.]+)s', txt)
        if m:
            r['time_s'] = float(m.group(1))
        fc = re.findall(r'Failed Checks: (.*)\n\s*File: "([^"]+)", line (\d+)', txt)
        r['failed_checks'] = ['%s (%s:%s)' % f for f in fc]
        cov = re.search(r'\*\* (\d+) of (\d+) cover properties satisfied', txt)
        if 'VERIFICATION:- SUCCESSFUL' in txt:
            if cov and cov.group(1) != cov.group(2):
                r['status'] = 'undecided'; r['detail'] = 'vacuity guard: cover property unsatisfiable (%s of %s)' % cov.groups()
            else:
                r['status'] = 'ok'; r['detail'] = ''
        elif 'VERIFICATION:- FAILED' in txt:
            msgs = ' | '.join(r['failed_checks'])
            if 'unwinding assertion' in txt and not any('unwinding' not in f for f in r['failed_checks']):
                r['status'] = 'undecided'; r['detail'] = 'unwinding bound too small: ' + msgs
            elif not fc:
                r['status'] = 'undecided'; r['detail'] = 'FAILED without failed checks (CBMC error / out of memory?)'
            else:
                r['status'] = 'failed'; r['detail'] = msgs
        r['raw'] = txt[-4000:]
    return res


def run_groups(groups, tier, only_props=None, only_harness=None, jobs=None, timeout=7200, keep=False, playback=True):
    """groups: list of file names under kani/.  Returns dict(results, harnesses, build_ok, wall_s, cmd, scratch_note)"""
    t0 = time.time()
    jobs = jobs or min(16, os.cpu_count() or 4)
    scratch = make_scratch()
    info = dict(results={}, harnesses=[], wall_s=0, cmd='', error=None, playback={})
    try:
        by_target = {}
        allh = []
        for g in groups:
            target, mod, hs = expand_group(os.path.join(ROOT, 'kani', g), tier)
            by_target.setdefault(target, []).append(mod)
            allh += hs
        if only_props:
            allh = [h for h in allh if set(h['props']) & set(only_props)]
        if only_harness:
            allh = [h for h in allh if h['name'] in only_harness]
        info['harnesses'] = allh
        if not allh:
            return info
        for target, mods in by_target.items():
            p = os.path.join(scratch, target)
            if not os.path.exists(p):
                raise KaniError('target %s missing in working tree' % target)
            with open(p, 'a') as f:
                f.write('\n' + '\n'.join(mods))
        env = dict(os.environ, CARGO_NET_OFFLINE='true', CARGO_TARGET_DIR=KANI_TARGET)
        cmd = ['cargo', 'kani', '--no-default-features', '--features', 'calc_limit', '-Z', 'function-contracts',
               '-Z', 'stubbing', '--output-format', 'terse', '-j', str(jobs)]
        names = [h['name'] for h in allh]
        cmd.append('--exact')
        for h in allh:
            mod = os.path.splitext(os.path.basename(h['target']))[0]
            cmd += ['--harness', '%s::verif_kani::%s' % (mod, h['name'])]
        info['cmd'] = ' '.join(cmd[:15]) + ' --harness <%d harnesses>' % len(names)
        try:
            p = subprocess.run(cmd + ['--exact'] if False else cmd, cwd=scratch, env=env, capture_output=True, text=True, timeout=timeout)
        except subprocess.TimeoutExpired:
            info['error'] = 'cargo kani timed out after %ds' % timeout
            return info
        out = p.stdout + '\n' + p.stderr
        info['raw_tail'] = out[-3000:]
        if 'Checking harness' not in out:
            info['error'] = 'cargo kani did not reach verification (build error?):\n' + out[-3000:]
            return info
        info['results'] = parse_output(out, names)
        # counterexample replay for failed harnesses
        failed = [n for n, r in info['results'].items() if r['status'] == 'failed']
        if playback and failed:
            for n in failed[:3]:
                info['playback'][n] = concrete_playback(scratch, env, n)
        return info
    except KaniError as e:
        info['error'] = str(e)
        return info
    finally:
        info['wall_s'] = time.time() - t0
        if not keep:
            shutil.rmtree(scratch, ignore_errors=True)


def concrete_playback(scratch, env, harness):
    """re-run one failing harness with concrete playback and execute the generated unit test natively"""
    out = dict(ok=False, test=None, native_output='')
    try:
        cmd = ['cargo', 'kani', '--no-default-features', '--features', 'calc_limit', '-Z', 'function-contracts',
               '-Z', 'stubbing', '-Z', 'concrete-playback', '--concrete-playback=inplace', '--output-format', 'terse',
               '--harness', harness]
        p = subprocess.run(cmd, cwd=scratch, env=env, capture_output=True, text=True, timeout=1800)
        # find the generated test
        test_name = None
        test_src = ''
        for root, _, files in os.walk(os.path.join(scratch, 'src')):
            for f in files:
                t = open(os.path.join(root, f)).read()
                m = re.search(r'fn (kani_concrete_playback_%s_\w+)\(\)' % re.escape(harness), t)
                if m:
                    test_name = m.group(1)
                    i = t.rfind('///', 0, m.start())
                    j = t.find('\n}\n', m.end())
                    test_src = t[max(0, t.rfind('\n\n', 0, m.start())):j + 3]
        if not test_name:
            out['native_output'] = 'no concrete playback test generated\n' + (p.stdout + p.stderr)[-1500:]
            return out
        out['test'] = test_src
        cmd = ['cargo', 'kani', 'playback', '-Z', 'concrete-playback', '--no-default-features', '--features', 'calc_limit',
               '--', test_name]
        p = subprocess.run(cmd, cwd=scratch, env=env, capture_output=True, text=True, timeout=1800)
        o = p.stdout + p.stderr
        out['native_output'] = o[-3000:]
        out['ok'] = ('FAILED' in o or 'panicked' in o) and p.returncode != 0
    except Exception as e:  # playback is best effort
        out['native_output'] += '\nplayback error: %r' % e
    return out
