#!/usr/bin/env python3
"""bin/check <PROPERTY> [--tier quick|thorough] [--replay FILE] [--update-baseline]

Decides one property by contract-based deductive verification of the real code:
  * Verus on functions cut out of /repo's working tree on this run (unbounded),
  * Kani harnesses injected into a scratch copy of the working tree (complete for loop-free /
    concrete-width members; bounded stand-ins are labelled and counted separately).
exit 0: every obligation discharged;  exit 1: `VIOLATION property=<id> replay=<path>`;
exit 2: undecided (lost anchor, unsupported construct, rlimit, tool failure) - never an alarm.
"""
import argparse, json, os, re, sys, time, concurrent.futures as cf

ROOT = os.path.dirname(os.path.dirname(os.path.abspath(__file__)))
sys.path.insert(0, os.path.join(ROOT, 'lib'))
import props as P
import verus_run, kani_run, scan

BASELINE = os.path.join(ROOT, 'baseline', 'obligations.json')
KNOWN = os.path.join(ROOT, 'KNOWN_FINDINGS.txt')


def load_known():
    findings, fixed = [], []
    if os.path.exists(KNOWN):
        for ln in open(KNOWN):
            ln = ln.strip()
            m = re.match(r'^finding:\s+property=(\S+)\s+obligation=(\S+)\s+(.*)$', ln)
            if m:
                findings.append(dict(prop=m.group(1), obligation=m.group(2), text=m.group(3)))
            m = re.match(r'^fixed:\s+property=(\S+)\s+(\S+)\s+(.*)$', ln)
            if m:
                fixed.append(dict(prop=m.group(1), commit=m.group(2), text=m.group(3)))
    return findings, fixed


def sanitize(s):
    return re.sub(r'[^A-Za-z0-9_.-]+', '_', s).strip('_')


def main():
    ap = argparse.ArgumentParser()
    ap.add_argument('prop')
    ap.add_argument('--tier', default=os.environ.get('VERIF_TIER', 'quick'), choices=['quick', 'thorough'])
    ap.add_argument('--replay')
    ap.add_argument('--update-baseline', action='store_true')
    ap.add_argument('--no-evidence', action='store_true', help='do not rewrite evidence/<id>.json (used by bin/seedtest --copy)')
    ap.add_argument('--no-kani', action='store_true', help='debugging aid: skip the Kani back end (run is then UNDECIDED at best)')
    args = ap.parse_args()
    prop = args.prop
    if prop not in P.PROPS:
        print('unknown or unclaimed property %s' % prop); sys.exit(2)
    cfg = P.PROPS[prop]
    seed = int(os.environ.get('VERIF_SEED', '0') or 0)
    t0 = time.time()
    only_obl = None
    if args.replay:
        try:
            rp = json.load(open(args.replay))
            only_obl = rp.get('obligation')
            print('replaying obligation %s on the current working tree' % only_obl)
        except Exception as e:
            print('cannot read replay file: %s' % e); sys.exit(2)

    # ---------------------------------------------------------------- run back ends
    units = cfg.get('verus_units', [])
    groups = cfg.get('kani_groups', [])
    unit_res = {}
    kani_info = None
    with cf.ThreadPoolExecutor(max_workers=8) as ex:
        futs = {ex.submit(verus_run.run_unit, u): u for u in units}
        kfut = None
        if groups and not args.no_kani:
            kfut = ex.submit(kani_run.run_groups, groups, args.tier, [prop])
        for f in cf.as_completed(futs):
            unit_res[futs[f]] = f.result()
        if kfut:
            kani_info = kfut.result()

    # ---------------------------------------------------------------- collect obligations
    obligations = []     # dict(id, backend, kind, status ok|failed|undecided, detail, ...)
    undecided_reasons = []
    functions = []
    deltas = []
    assumptions = set()
    solver_ms = {}
    for u in units:
        r = unit_res[u]
        for a in r.assumptions:
            assumptions.add('%s: %s' % (u, a))
        for m in r.metas:
            if m['mode'] != 'type' and prop in m.get('props', []) or m['mode'] == 'assumed':
                pass
        if r.status != 'ok':
            undecided_reasons.append('unit %s: %s' % (u, r.reason))
        for m in r.metas:
            if m['mode'] == 'type':
                for d in m['deltas']:
                    deltas.append(dict(item=m['name'], file=m['file'], **d))
                continue
            relevant = prop in m.get('props', [])
            if m['mode'] == 'assumed':
                if relevant:
                    assumptions.add('%s: contract of %s (%s:%d-%d) is ASSUMED in Verus, not proved%s' % (
                        u, m['name'], m['file'], m['lines'][0], m['lines'][1],
                        ' (bounded Kani stand-in exists)' if cfg.get('assumed_backed_by', {}).get(m['name']) else ''))
                continue
            if not relevant:
                continue
            functions.append(dict(name=m['name'], file=m['file'], lines=m['lines'], sha256=m['sha256'],
                                  backend='verus', mode='verified', unit=u, contract=m['contract']))
            for d in m['deltas']:
                deltas.append(dict(item=m['name'], file=m['file'], **d))
            oid = '%s/verus/%s/%s' % (prop, u, sanitize(m['name']))
            fr = r.fn_results.get(m['name'])
            if r.status != 'ok' or fr is None:
                st, detail = 'undecided', r.reason
            elif not fr['success']:
                st = 'failed'
                detail = '; '.join('%s @ %s' % (e['message'], ' / '.join(w['text'][:120] for w in e['where'][:2])) for e in fr['errors'])
            elif fr['undecided'] or m['name'] in getattr(r, 'unseen', []):
                st = 'undecided'
                detail = '; '.join(e['message'] for e in fr['errors']) or 'function produced no SMT query (vacuity guard)'
            else:
                st, detail = 'ok', ''
            if m.get('lost_anchors') and st != 'ok':
                # a proof hint lost its anchor: the function text changed shape; a failure is then not trustworthy
                if st == 'failed':
                    st = 'undecided'
                detail = 'proof-hint anchors lost (%s); %s' % (', '.join(m['lost_anchors']), detail)
            if fr and fr.get('time_ms') is not None:
                solver_ms[oid] = fr['time_ms']
            obligations.append(dict(id=oid, backend='verus(z3)', kind='unbounded', status=st, detail=detail,
                                    fn=m['name'], file=m['file'], lines=m['lines'], unit=u,
                                    errors=(fr or {}).get('errors', []), lost_anchors=m.get('lost_anchors', [])))
    if kani_info is not None:
        if kani_info.get('error'):
            undecided_reasons.append('kani: %s' % kani_info['error'][:2000])
        for h in kani_info['harnesses']:
            oid = '%s/kani/%s' % (prop, h['name'])
            kr = kani_info['results'].get(h['name'], dict(status='undecided', detail=kani_info.get('error') or 'not run', time_s=None))
            kind = {'complete': 'complete (loop-free, full domain)', 'family': 'complete per family member',
                    'bounded': 'BOUNDED stand-in'}[h['kind']]
            obligations.append(dict(id=oid, backend='kani(cbmc)', kind=kind, status=kr['status'], detail=kr['detail'],
                                    harness=h['name'], params=h['params'], family=h['family'], group=h['group'],
                                    bounded=(h['kind'] == 'bounded'), raw=kr.get('raw', '')))
            if kr.get('time_s') is not None:
                solver_ms[oid] = int(kr['time_s'] * 1000)
    elif groups and args.no_kani:
        undecided_reasons.append('kani skipped (--no-kani)')

    # ---------------------------------------------------------------- frame scan (mechanical frame condition)
    frame = []
    if cfg.get('frame_scan'):
        verified = set()
        for u in units:
            for m in unit_res[u].metas:
                if m['mode'] == 'verified' and not m.get('demoted'):     # a demoted function is not proved: scan it
                    own = m.get('owner')
                    ty = None
                    if own:
                        mm = re.search(r'(\w+)(?:<[^>]*>)?\s*$', own)
                        ty = mm.group(1) if mm else None
                    nm = re.search(r'(\w+)$', m['name']).group(1)
                    verified.add('%s %s::%s' % (m['file'], ty or '', nm))
        allow = scan.load_allow(os.path.join(ROOT, 'contracts', 'frame_allow.txt'))
        frame = scan.frame_scan(os.environ.get('VERIF_REPO', '/repo'), prop, verified, allow)
        for fo in frame:
            if fo['status'] == 'allowed':
                assumptions.add('frame exception %s %s: %s' % (fo['file'], fo['fn'], fo['detail']))
            elif fo['status'] in ('failed', 'undecided'):
                obligations.append(dict(id=fo['id'], backend='frame-scan', kind='frame condition (syntactic)', status=fo['status'],
                                        detail=fo['detail'], fn=fo['fn'], file=fo['file'], lines=[fo['line'], fo['line']], unit='-',
                                        errors=[dict(rendered=fo['detail'])], frame=True))

    if only_obl:
        obligations = [o for o in obligations if o['id'] == only_obl]
        if not obligations:
            print('obligation %s is no longer generated from the working tree' % only_obl); sys.exit(2)

    # ---------------------------------------------------------------- vacuity guard: obligation set vs baseline
    ids = sorted(o['id'] for o in obligations if not o.get('frame'))
    base = {}
    if os.path.exists(BASELINE):
        base = json.load(open(BASELINE))
    if args.update_baseline:
        base.setdefault(prop, {})[args.tier] = ids
        os.makedirs(os.path.dirname(BASELINE), exist_ok=True)
        json.dump(base, open(BASELINE, 'w'), indent=1, sort_keys=True)
        print('baseline updated: %s %s %d obligations' % (prop, args.tier, len(ids)))
    elif not only_obl:
        want = base.get(prop, {}).get(args.tier)
        if want is None:
            undecided_reasons.append('no baseline obligation list for %s/%s' % (prop, args.tier))
        else:
            missing = sorted(set(want) - set(ids))
            if missing:
                undecided_reasons.append('vacuity guard: obligations no longer generated: %s' % ', '.join(missing[:8]))
    if not obligations:
        undecided_reasons.append('vacuity guard: zero obligations generated')

    # ---------------------------------------------------------------- decide
    findings, fixed = load_known()
    known_ids = {f['obligation']: f for f in findings if f['prop'] == prop}
    failed = [o for o in obligations if o['status'] == 'failed']
    undec = [o for o in obligations if o['status'] == 'undecided']
    violations = []
    known_hits = []
    for o in failed:
        if o['id'] in known_ids:
            known_hits.append((o, known_ids[o['id']]))
        else:
            violations.append(o)
    known_failed_ids = set(o['id'] for o, _ in known_hits)
    # a recorded finding is reported, not counted: neither as an obligation nor as discharged
    proved = [o for o in obligations if not o.get('bounded') and not o.get('frame') and o['id'] not in known_failed_ids]
    bounded = [o for o in obligations if o.get('bounded')]
    wall = time.time() - t0

    os.makedirs(os.path.join(ROOT, 'replay'), exist_ok=True)
    os.makedirs(os.path.join(ROOT, 'evidence'), exist_ok=True)
    out_lines = []
    for o, f in known_hits:
        out_lines.append('KNOWN-FINDING: property=%s %s (%s)' % (prop, f['text'], o['id']))
    for o in violations:
        rp = os.path.join(ROOT, 'replay', '%s.json' % sanitize(o['id']))
        rec = dict(property=prop, obligation=o['id'], backend=o['backend'], kind=o['kind'], detail=o['detail'],
                   tier=args.tier, failing_input=None, verifier_output='', native_replay=None,
                   how_to_replay='bin/check %s --tier %s --replay %s' % (prop, args.tier, rp))
        suffix = ' no-failing-input-found'
        if o['backend'].startswith('verus'):
            rec['verifier_output'] = '\n'.join(e.get('rendered', '') for e in o.get('errors', []))
            rec['source'] = dict(fn=o['fn'], file=o['file'], lines=o['lines'])
            # paired Kani harness for a counterexample?
            pair = cfg.get('kani_pairs', {}).get(o['fn'])
            if pair and not args.no_kani:
                ki = kani_run.run_groups(pair['groups'], args.tier, only_harness=pair['harnesses'])
                for hn, pb in ki.get('playback', {}).items():
                    if pb.get('ok'):
                        rec['failing_input'] = pb['test']; rec['native_replay'] = pb['native_output']; suffix = ''
                        break
        elif o['backend'] == 'frame-scan':
            rec['verifier_output'] = o['detail']
            rec['source'] = dict(fn=o['fn'], file=o['file'], lines=o['lines'])
        else:
            rec['verifier_output'] = o.get('raw', '')
            pb = (kani_info or {}).get('playback', {}).get(o['harness'])
            if pb is None and kani_info is not None and not args.no_kani:
                ki = kani_run.run_groups([o['group']], args.tier, only_harness=[o['harness']])
                pb = ki.get('playback', {}).get(o['harness'])
            if pb and pb.get('ok'):
                rec['failing_input'] = pb['test']; rec['native_replay'] = pb['native_output']; suffix = ''
            elif pb:
                rec['native_replay'] = pb.get('native_output')
        json.dump(rec, open(rp, 'w'), indent=1)
        out_lines.append('VIOLATION property=%s replay=%s%s' % (prop, rp, suffix))
        out_lines.append('  obligation %s FAILED: %s' % (o['id'], o['detail'][:400]))

    # ---------------------------------------------------------------- evidence
    samples = []
    for o in obligations[:3] + obligations[-2:]:
        samples.append({k: o[k] for k in ('id', 'backend', 'kind', 'status') if k in o})
    cmds = []
    for u in units:
        cmds.append(unit_res[u].cmd or ('verus <assembled units/%s.rs>' % u))
    if kani_info is not None:
        cmds.append(kani_info.get('cmd', ''))
    ev = dict(
        property_id=prop, tier=args.tier, seed=seed, level='proof',
        coverage=dict(
            obligations=len(proved), discharged=sum(1 for o in proved if o['status'] == 'ok'),
            checker_cmd=' ; '.join(c for c in cmds if c),
            trusted_base=P.TRUSTED_BASE + cfg.get('trusted_base', []),
            samples=samples,
            bounded_obligations=len(bounded), bounded_discharged=sum(1 for o in bounded if o['status'] == 'ok'),
            bounded_note=cfg.get('bounded_note', ''),
            functions_under_contract=functions,
            obligation_ledger=[dict(id=o['id'], backend=o['backend'], kind=o['kind'], status=o['status'],
                                    solver_ms=solver_ms.get(o['id'])) for o in obligations],
            solver_time_ms_total=sum(v for v in solver_ms.values() if v),
            extraction_deltas=deltas,
            undecided=[dict(id=o['id'], why=o['detail'][:300]) for o in undec] + [dict(id='-', why=r[:600]) for r in undecided_reasons],
            frame_functions_scanned=len(frame), frame_ok=sum(1 for f in frame if f['status'] == 'ok'),
            frame_exceptions=sum(1 for f in frame if f['status'] == 'allowed'),
            not_decided=cfg.get('not_decided', []),
            known_findings=[f['text'] for _, f in known_hits],
            explanation=cfg.get('explanation', ''),
        ),
        assumptions=sorted(assumptions) + cfg.get('assumptions', []),
        wall_s=round(wall, 2),
        violations=len(violations),
    )
    if not only_obl and not args.no_evidence:
        json.dump(ev, open(os.path.join(ROOT, 'evidence', '%s.json' % prop), 'w'), indent=1)

    for l in out_lines:
        print(l)
    print('%s %s: %d obligations (%d discharged, %d failed, %d undecided) + %d bounded (%d ok) in %.1fs' % (
        prop, args.tier, len(proved), ev['coverage']['discharged'], len([o for o in failed if not o.get('bounded')]),
        len([o for o in undec if not o.get('bounded')]), len(bounded), ev['coverage']['bounded_discharged'], wall))
    if violations:
        sys.exit(1)
    if undec or undecided_reasons:
        for r in undecided_reasons:
            print('UNDECIDED: %s' % r[:1500])
        for o in undec:
            print('UNDECIDED: %s: %s' % (o['id'], o['detail'][:600]))
        sys.exit(2)
    sys.exit(0)


if __name__ == '__main__':
    main()

