"""Which units / harness groups decide which property (see DESIGN.md section 5)."""

PROPS = {
    'C04': dict(
        title='Bit-string operations depend only on the bit sequence',
        verus_units=['bitstr', 'cursor'],
        kani_groups=['codec.rs'],
        design_ref='DESIGN.md section 5 / C04',
        bounded_note='Kani stand-ins for detach / eq_with / to_bytes / bytestr / to_bytes_with_padding / to_hex_string: 3-byte backing '
                     'buffer with symbolic contents, concrete ranges S..E from the stated index sets; labelled BOUNDED, not counted as proved',
        assumed_backed_by={'Bitstr::detach': 'c04_detach*'},
        not_decided=['bytestr in Verus (returns a Cow; bounded Kani stand-in)', 'from_bin_str (used by tests only)'],
        technique='Verus contracts (view() = bit sequence, type invariant) on functions extracted from src/bitstr.rs each run; Kani bounded stand-ins for adapter-chain functions',
        level_text='Every obligation is a deductive proof over all buffer lengths, alignments, ownership-independent '
                   'views and stale bits: each bit-string operation is specified against the plain bit sequence view() '
                   'and Verus discharges it function by function, callers against callee contracts.',
        level_note='Trusted: Verus/Z3, vstd std specs, the extraction rules (listed per run), assumed contracts of data_mut '
                   '(Rc::make_mut + Cow::to_mut), detach/eq_with/byte+hex export (bounded Kani stand-ins, labelled bounded).',
    ),
    'C05': dict(
        title='Number <-> bits codecs are exact inverses and independent of alignment',
        verus_units=['bitstr', 'cursor'],
        kani_groups=['codec.rs'],
        design_ref='DESIGN.md section 5 / C05',
        technique='Kani/CBMC harness families over concrete (width, offset, byte order) with fully symbolic values and backing bytes, '
                  'checked against a reference decoder that reads the bit sequence only; Verus contract on Iter8::next (the 8-bit grouping all codecs share)',
        level_text='Each family member (one width 1..128, one bit offset 0..7, one byte order) is a complete proof: all loops are bounded '
                   'by the concrete width with unwinding assertions on, the i128 value / the backing bytes (including stale bits around the '
                   'field) are fully symbolic. The family is exhaustive over the stated index set (thorough: all 128 widths x 8 offsets x 2 orders; '
                   'quick: boundary widths and offsets).',
        level_note='Trusted: Kani 0.68/CBMC bit-precise semantics incl. f32/f64 from/to bytes, the reference decoder in kani/codec.rs '
                   '(bit loop), Verus/Z3 for Iter8::next. Widths >128 are outside the property.',
    ),
    'C02': dict(
        title='Reverse stepping exactly undoes forward stepping',
        verus_units=['state', 'arith', 'collections', 'cursor'],
        kani_groups=[],
        frame_scan=True,
        design_ref='DESIGN.md section 5 / C02',
        technique='Verus contracts over a ghost machine model and an undo semantics of the reverse log: every recording primitive, '
                  'reverse_changes and fetch_and_run (all 21 opcode arms, verbatim) are proved against it, unbounded in stack depth and log length',
        level_text='Deductive proof per function: (1) every state-mutating primitive appends log entries whose undo (spec function `undo`, '
                   'applied the way rnext pops them) restores exactly the machine it started from, and this extends any earlier undoable '
                   'history (rev_ext); (2) reverse_changes implements `undo` for every entry kind; (3) fetch_and_run: a completed instruction '
                   'ends the log with SetIp(old ip) and everything below it undoes to the old machine, a failing instruction leaves only '
                   'undoable changes and the ip on itself. Quantified over all states, stack depths, log lengths, opcodes.',
        level_note='(4) rnext (verbatim; its one-line non-capturing closure becomes a named helper with the literal contract of that line): if the log ends with a completed '
                   'instruction that started in state a, one rnext restores exactly a\'s machine and log; closing lemma: fetch_and_run followed by rnext is the identity on machine state and log, '
                   'so by induction k backward steps undo k forward steps. Assumed: the native-word contract for words called through a function pointer (call_native: keeps bases/ip, changes are '
                   'undoable) - PROVED for the ~60 native words that are themselves under contract (arithmetic, collection, cursor, stack words), backed by the frame scan for the rest; '
                   'termination of the rnext loop is not proved; run/next (closures capturing &mut self) are not under contract; rpds/std contracts; derive(Clone) is structural.',
        not_decided=['native words not under contract are covered only by the assumed native-word contract + frame scan', 'termination of rnext'],
    ),
    'C14': dict(
        title='Resource limits are hard bounds and hitting one is recoverable',
        verus_units=['state', 'compile'],
        kani_groups=[],
        frame_scan=True,
        design_ref='DESIGN.md section 5 / C14',
        technique='Verus contracts on check_stack_limit/push_data, check_heap_limit/alloc_heap, insn_meter_increase/fetch_and_run and the set_*_limit words',
        level_text='Deductive proof for all states and limit values: push_data succeeds iff len < S (so the stack never exceeds S), alloc_heap iff '
                   'len < H, the instruction meter is consulted before an instruction does anything and an instruction that fails the check '
                   'changes nothing; a failed check leaves the state unchanged, so raising the limit restores normal behaviour (the predicates depend on (len, limit) only).',
        level_note='Assumed: words not under contract reach data_stack/heap only through push_data/alloc_heap (checked mechanically by the frame scan in '
                   'thorough tier, not by proof); reverse_changes may restore a previously legal length.',
    ),
    'C15': dict(
        title='How a program is driven does not change what it does',
        verus_units=['state', 'compile'],
        kani_groups=[],
        design_ref='DESIGN.md section 5 / C15',
        technique='Verus: each primitive and fetch_and_run has ONE machine-state postcondition that does not mention whether recording is on',
        level_text='Partial. Proved: recording on/off cannot change the machine - every primitive\'s successor machine is the same spec function of '
                   'the predecessor in both modes (no case split on is_recording in any ensures), including over_data whose reverse path re-enters drop_data.',
        level_note='run and next are under contract (Rcomb for their closures): run is next iterated (run_steps chain), both leave the ip on the first failing instruction with the error context of that ip. NOT decided: eval == compile+run (build1 compiles and, in meta mode, runs; its model contract is assumed), termination of run.',
        not_decided=['eval == compile + run', 'termination of run (programs need not terminate)'],
    ),
    'C16': dict(
        title='The lexer is total, loses no text, and reads literals as written',
        verus_units=['lexer', 'lex', 'bitstr', 'collections'],
        kani_groups=[],
        design_ref='DESIGN.md section 5 / C16',
        technique='Verus contracts on the real lexer (Lex::new, peek_char, take_char, skip_line, last_substr, next, next_nonws) over a character-level '
                  'model of the source text (text = Seq<char>, positions = byte offsets, every cursor on a character boundary), with the value of every literal '
                  'stated as a spec function of the token characters; BitvecBuilder::append_bit/finish (the bit-literal builder) and the bit-string printer '
                  '(the Cell::Bitstr arm of fmt::Debug for Cell, lifted by rule Rarm) in unit bitstr; closing lemma print-then-read over the two contracts',
        level_text='Proved for EVERY text (any UTF-8, any length): each call of next terminates (every loop has a decreasing '
                   'measure: the bytes left), the token starts exactly where the previous one ended, both cursors stay on character boundaries inside the '
                   'text, a token other than end-of-input consumes at least one character and end-of-input is reported only at the end of the text and '
                   'consumes nothing - so the token loop of every caller terminates and the token texts, concatenated in order, are the input up to the '
                   'first error; Whitespace / Word / Comment tokens carry exactly the bytes between the two cursors; no slice of the text is ever taken off '
                   'a character boundary or past the end (no panic). Literals are read as written (postconditions lit_ok / lit_err of Lex::next): a bit-string '
                   'literal denotes exactly its hex digits (four bits each, most significant first) and x/. bits; a string literal the characters between the '
                   'quotes with the documented escapes decoded and any other escape refused; a number is [sign] digits with an optional 0x / 0b prefix, the `_` '
                   'separators removed, radix 16 / 2 for the prefixes, 16 for any other leading zero, 10 otherwise, its value the mathematical value of those digits '
                   '(rejected exactly when there is none in the 128-bit range); a token with a `.` is the real std converts the same characters to, and a radix '
                   'prefix on a real is refused. Printing: unless elided to fit the screen, the printer of bit-strings writes `|`, characters that denote exactly '
                   'the bits of the value, `|` - and (lemma) Lex::next reads that text back as one literal with exactly those bits. The printer of vectors '
                   '(`[ ` elements each followed by a blank `]`), maps (`{ ` VALUE KEY pairs in key order `}`, the order a map literal reads) and integers '
                   '(base, prefix and case as the flags ask, decimal otherwise) has the stated shape (unit collections).',
        level_note='Assumed (dependency contracts): str slicing + chars().next() yields the character at a boundary offset, arcstr substr, char::len_utf8 (vstd); '
                   'char::to_digit(16) / is_ascii_digit / is_ascii_whitespace as their spec functions, i128::from_str_radix = the mathematical value of [sign] digits '
                   '(None when empty, a wrong digit, out of range), str::parse::<f64> = an uninterpreted function of the characters, ArcStr::from(&String) keeps the '
                   'characters; fmt::Formatter is a character sink (write_str / write_char append their argument, `{:X}` of a value < 16 appends its hex digit); '
                   'the length preconditions of the bit-literal builder (< 2^64 - 8 bits) are not carried into the lexer. '
                   'the recursive printer call and std integer formatting are functions of (cell, flags) / (number, base, prefix, case). NOT decided: that the printed text of an integer, vector or map evaluates back to an equal value; strings ({:?}).',
        not_decided=['read-back of printed integers, vectors and maps (shape of the printed text is decided)', 'printed strings', 'XstrLines'],
    ),
    'C18': dict(
        title='Text encodings of binary data round-trip',
        verus_units=['cursor'],
        kani_groups=['codec.rs'],
        bounded_note='Kani stand-in for Bitstr::bytestr / to_bytes (the byte export the encoders feed to the codecs): 3-byte backing buffer with symbolic contents, concrete ranges S..E; labelled BOUNDED, not counted as proved',
        design_ref='DESIGN.md section 5 / C18',
        technique='Verus contracts on the twelve wrapper words of src/base_ext.rs over stand-ins of the three codec crates (uninterpreted enc/dec per codec), '
                  'plus four pair lemmas (encode then decode) over those contracts',
        level_text='Partial: everything xeh owns, for all inputs. Proved: each encoder takes exactly what `>bitstr` takes (it calls into_bitstr, whose contract is the '
                   'flattening spec of C07), requires whole bytes, and pushes the codec\'s text of THOSE bytes; each decoder pushes the codec\'s bytes as a bit-string, and nil '
                   '(never an error, never another value) when the codec rejects the text or the operand is not a string; both words of a pair use the same codec and the '
                   'same alphabet (base32: RFC4648 with padding, base32hex: the Crockford alphabet on BOTH sides), so encode followed by decode returns the original bits '
                   'given the crate\'s own round-trip law; stack discipline and reversibility of all twelve words.',
        level_note='ASSUMED, not proved: decode(encode(b)) == Some(b) inside the crates base32, base64 and z85 (axiom_roundtrip of each stand-in) and that their decoders reject invalid '
                   'text - the bit-level codec algorithms are not xeh code. The stand-ins mirror the call signatures used by src/base_ext.rs.',
        not_decided=['the codec algorithms of the three crates (assumed law)', 'for every length: follows from the assumed law, not from xeh code'],
    ),
    'C17': dict(
        title='Every error points at the token that caused it',
        verus_units=['state', 'compile', 'lex', 'build'],
        kani_groups=[],
        design_ref='DESIGN.md section 5 / C17',
        technique='Verus: fetch_and_run leaves ctx.ip on the failing instruction (so the debug-map lookup names its token); debug-map/code invariants on the emitters; '
                  'token_location against a character-level model of the source text (line feeds before the token, characters since the line start, the line without its break)',
        level_text='Partial. Proved for all states and opcodes: an instruction that fails leaves the instruction pointer unchanged, also inside a called '
                   'definition, so the run-time error location is the failing opcode\'s debug-map entry. Proved for all source texts (any mix of LF/CR/CRLF, '
                   'multi-byte characters) and every token position: token_location reports line = number of line feeds before the token, col = number of characters '
                   'between the start of its line and the token, whole_line = exactly the token\'s line without its line break, token = the token itself, and the slice it takes is '
                   'inside the text on character boundaries (no panic).',
        level_note='Assumed (dependency contracts): arcstr Substr::range/parent/substr, str::char_indices yields (byte offset, char) in order. token_filename, build0 (the location of a build-time error is that of last_token), run / next (the location of a run-time error is the debug-map entry of the failing ip), include / require (included text becomes a source under the name of its path) and the printer of locations are verified. NOT decided: that every immediate word leaves last_token on the failing token.',
        not_decided=['that every immediate word leaves last_token on the failing token'],
    ),
    'C01': dict(
        title='Structured control flow compiles to bytecode that means what the source says',
        verus_units=['compile', 'state', 'collections', 'build', 'cell'],
        kani_groups=['opcodes.rs'],
        design_ref='DESIGN.md section 5 / C01',
        technique='Kani full-domain proof of the jump codec; Verus backpatch contracts on every immediate control word over a pending-flow invariant '
                  '(each open construct owns one placeholder of the right kind, no two share one); Verus contract on loop_next/do_init/fetch_and_run',
        level_text='Partial (the three layers every nesting is built from, not their composition). Proved for all code sizes and flow-stack contents: '
                   '(1) decoding a relative jump at its origin yields its destination, including distance 0 (Kani, complete); (2) each closing word removes '
                   'exactly its opening entry and patches its placeholder(s) to the structurally intended address - then: current origin; else/endof: '
                   'behind the emitted jump; until/repeat: back to begin, breaks and while behind the loop; loop: Loop->body, Do and breaks->behind the loop; '
                   'endcase: every endof jump to the current origin - touching no other cell, and the panic!("not a jump instruction") is unreachable; '
                   '(3) the VM primitives the opcodes are built from (loop_next, do_init, push/pop loop) against their machine-state functions.',
        level_note='take_first_cond_flow is verified after rewrite rule R15. Also under contract: literals, name resolution (build_word, dict lookups), variables, locals, definitions (: ; late immediate defined), the literal brackets, foreach, the compile loop build1 (unit build) and the wiring of 46 control / definition words. NOT decided: that composing the layers over an arbitrary nesting equals a structural evaluation (induction over program structure through build1 and the native words); recursion; what immediate words do when run by build_word (run_immediate is assumed).',
        not_decided=['composition of the layers over arbitrary nestings (compiler correctness proper)', 'recursion', 'run_immediate (assumed)'],
    ),
    'C10': dict(
        title='A source that fails to build has no effect on anything submitted afterwards',
        verus_units=['compile', 'state', 'build'],
        kani_groups=[],
        design_ref='DESIGN.md section 5 / C10',
        technique='Verus contracts on build_from_source/build_from_file/build_mark/build_abort/context_open (build0, intern_source assumed)',
        level_text='Deductive proof for all states: when the build of a source fails, build_abort restores nesting, context (mode, stack base), pending '
                   'inputs, pending flow, code, debug map, dictionary, return/loop/special stacks, data-stack height and the reverse log to the marks taken '
                   'before the source was opened; build_from_source/file call it on every failing build and return with the nesting they were entered with.',
        level_note='Assumed: build1 (the token loop and every immediate word; model contract) only nests deeper and leaves the bookkeeping consistent; intern_source. '
                   'Last clause (a line that fails at run time is not re-executed): stated as the strict contract of run (after a failing run nothing of the failed line is left '
                   'to execute); it FAILS on the tree - known finding D24, reported as KNOWN-FINDING, the relaxed contract (the ip stays on the failing instruction) is proved. '
                   'NOT decided: the REPL\'s run_line (closure).',
        not_decided=['REPL run_line / snapshot handling (closures, outside Verus)'],
    ),
    'C11': dict(
        title='Meta-evaluation is sealed and equivalent to inlining its result',
        verus_units=['compile', 'state', 'build'],
        kani_groups=[],
        design_ref='DESIGN.md section 5 / C11',
        technique='Verus contracts on context_open/context_close (both loops verbatim), cell_ref_for_mode/swap_cell_ref/alloc_heap, code_emit_value',
        level_text='Partial. Proved for all states: in MetaEval mode variable reads, writes and allocation fail and change nothing; opening a context of a '
                   'different mode hides the whole outer data stack (ds_len := height); closing a meta context leaves the hidden part of the stack exactly as '
                   'it was, truncates its code to the mark and re-emits only load-literal opcodes, and every dictionary entry it leaves is a constant; closing a '
                   'Compile context changes nothing but the context (compiling executes nothing outside meta blocks).',
        level_note='Assumed: run() keeps context marks/nesting/flow/code length and never touches the hidden part of the stack (closure, outside Verus; '
                   'backed by the stack primitives\' contracts, which never reach below ctx.ds_len). NOT decided: equivalence with the inlined literal '
                   '(compiler-level), eval == compile+run.',
        not_decided=['behavioural equivalence with the inlined literal', 'eval == compile;run'],
    ),
    'C09': dict(
        title='Arithmetic, comparison and bitwise words follow exact integer / IEEE semantics',
        verus_units=['arith', 'cell'],
        kani_groups=[],
        design_ref='DESIGN.md section 5 / C09',
        technique='Verus contracts on every word of src/arith.rs over mathematical integers (spec) vs i128 (code); real operators are uninterpreted functions of the operands in source order',
        level_text='Deductive proof for all operands and stacks: + - * wrap in two\'s complement and are exact when representable; / truncates, rem has the sign of the '
                   'dividend, a zero divisor (int or real /, int rem) is DivisionByZero, MIN/-1 wraps, neg/abs of MIN is IntegerOverflow; comparisons, min/max, '
                   'band/bor/bxor/bnot, bsl/bsr for counts 0..127, zero?/positive?/negative?, and/or/xor/not return the stated function of the tag-stripped operands; '
                   'non-numeric or mixed operands give a TypeErrorMsg whose value is one of the two operands; exactly the operands are consumed, results carry no tags; no panics.',
        level_note="IEEE-754 arithmetic itself is NOT verified (R7: f64 operators are replaced by uninterpreted helpers; which operator is applied to which operands in which order IS checked). Assumed std contracts: i128::{checked_neg, checked_abs, wrapping_div, wrapping_rem, count_ones}; vstd specs of wrapping_add/sub/mul/shl/shr, Ord::min/max. The six comparison closures of the word table are lifted (Rword) and verified; every function binding of the table carries its callee's contract; `random` has a thin contract (one real is pushed).",
        not_decided=['IEEE semantics of the real operations', 'popcnt value (only its range)', 'the value random pushes'],
    ),
    'C13': dict(
        title='Tags never change what a value does',
        verus_units=['cell', 'arith', 'collections', 'cursor', 'compile'],
        kani_groups=[],
        design_ref='DESIGN.md section 5 / C13',
        technique='Verus: every typed accessor of src/cell.rs is specified as a function of strip(cell) (the value without its tag wrapper); every word under contract is specified over strip(arg) only',
        level_text='Proved for the functions under contract: value() == strip; the typed accessors of src/cell.rs succeed or fail according to strip(c) only and return the payload of strip(c); with_tags / insert_tag / remove_tag / get_tag / tags are a map attached to strip(c); all arithmetic, collection, cursor, encoding and bit-string words compute from strip(operands) and their results are never WithTag cells; the five tag words; the formatting-tag words (they replace the #fmt tag of the top value and nothing else); the printing words; the printer arms for tagged values (the value alone, or value + tags when the flags ask).',
        level_note='D18 (get/insert/remove matched the raw cell) was found and repaired here. NOT decided: words that are not under contract (DESIGN section 9 item 5).',
        not_decided=['words not under contract'],
    ),
    'C12': dict(
        title='Maps, vectors and strings obey collection laws under the language\'s equality',
        verus_units=['collections', 'cell', 'state', 'compile'],
        kani_groups=['state_idx.rs'],
        design_ref='DESIGN.md section 5 / C12',
        technique='Verus contracts on eq/partial_cmp/cmp of Cell and on the collection words (nth get push insert remove length slice collect unbox concat join equal? reverse sort, the vector / map literal builders, foreach_init / foreach_next / I J K, the run-time helpers of let) against Seq / assumed-map models; Kani full-domain proofs of the two index helpers',
        level_text='Partial. Proved for all values: equal? is same-type-and-equal-payload and ignores tags; for integer and string keys the key order agrees with equal?; nth/get agree with '
                   'the sequence model for EVERY index including negative ones and the i128 extremes (out of range is an error, never another element); push builds a new vector and leaves '
                   'its operand alone; get/insert/remove apply the map operation to the tag-stripped collection and the given key. Known finding D17 (reported as KNOWN-FINDING): the key order '
                   'returns Equal for values of different or non-scalar types, so such keys collide.',
        level_note='Assumed: rpds Vector/RedBlackTreeMap are a persistent sequence / a map under the key order (their operations have assumed contracts); equality/order of arcstr strings, bit-strings and rpds collections; single iterator expressions (skip/take, chars(), rev(), sort) are routed through helpers with their assumed std meaning, so `reverse` and `sort` decide the stack discipline and that exactly that expression is applied, not the expression. Persistence of collections is a property of rpds.',
        not_decided=['the meaning of the single std expressions behind reverse / sort / slice (assumed helpers)', 'persistence (rpds)'],
    ),
    'C06': dict(
        title='Parsing cursor: a read returns exactly the requested bits and advances that far',
        verus_units=['cursor', 'bitstr', 'state', 'cell'],
        kani_groups=[],
        design_ref='DESIGN.md section 5 / C06',
        technique='Verus contracts on the cursor words of src/bitstr_ext.rs over a ghost cursor (input, offset, stash read out of their heap cells), '
                  'with the bit-string and stack/variable primitives in their assumed renderings (proved in their own units)',
        level_text='Proved for all inputs, offsets and (huge, negative) arguments: peek/read of n bits returns exactly bits [offset, offset+n) and moves the offset by n; '
                   'a failing read, an out-of-range seek, a width over the integer range or a refused push leave input, offset and data stack untouched; the offset stays inside '
                   'the input so remain == end - offset; uN/iN/int/uint/fN decode exactly the bits read in the given byte order; open-bitstr stashes (input, offset) and close-bitstr '
                   'restores them exactly, LIFO (lemma over the two contracts).',
        level_note='Assumed: contracts of Bitstr::{start,end,len,seek,substr,read,...} (proved in units/bitstr.rs), of push/pop/get_var/set_var (units/state.rs), of the tag words '
                   '(units/cell.rs), rpds map laws (lookup after insert / in empty map); the numeric value of the decoded bits is the Kani-decided C05. Modest sizes: input end < usize::MAX. '
                   'magic, find (over a stand-in of memmem::find), nulbytestr and cstr (the bytes before the first zero byte, one Latin-1 character each) are under contract too, '
                   'and every parsing word of the word table is checked to be bound to the function with the stated contract (Rword + same_as). '
                   'dump / dump-at leave the cursor and the stack alone (the dump text itself is assumed to print and return). bitstr-and/or/xor: operand shapes, stack discipline, result length AND every result bit (a[i] op b[i mod |b|]; the zip/cycle loop is spelled out by rule R22 and verified over Bits::next and the bit builder).',
        not_decided=['the text of dump / dump-at'],
    ),
    'C07': dict(
        title='Binary construction is the inverse of binary parsing',
        verus_units=['bitstr', 'cursor', 'state'],
        kani_groups=['codec.rs'],
        design_ref='DESIGN.md section 5 / C07',
        technique='Verus lemma over the contracts of append and read (any lengths, any alignments) + Kani composition family (three fields of concrete widths, symbolic values) + Verus contracts on the pack / append words',
        level_text='Bit-string layer, proved unbounded: reading |a| bits from a++b returns a and leaves b, lengths add up (so by induction any field list parses back). '
                   'Kani family: three integer fields packed, concatenated and parsed back in the same byte order return the values (mod width / sign-extended) and leave 0 bits, '
                   'for widths that put the 2nd and 3rd field at every bit alignment. Word layer: uN!/iN!/int!/uint! push a bit-string of exactly n bits denoting the value; bitstr-append concatenates.',
        level_note='>bitstr (bitstr_concat, recursive over nested lists), emit / output / output-length, float words and the wiring of all packing words are under contract (see DESIGN section 5 / C07). NOT decided: that a whole record packed by an arbitrary sequence of words parses back (the composition over field lists; append_then_read is its inductive step), output to the process stdout.',
        not_decided=['composition over arbitrary field lists (only the inductive step and a Kani family of three fields)', 'output to stdout'],
    ),
    'C08': dict(
        title='No source text, input or API call sequence can crash the interpreter',
        verus_units=['bitstr', 'state', 'compile', 'cell', 'arith', 'collections', 'cursor', 'lex', 'build', 'lexer'],
        kani_groups=['state_idx.rs', 'codec.rs'],
        design_ref='DESIGN.md section 5 / C08',
        technique='panic freedom of exactly the functions under contract: Verus checks every arithmetic operation for overflow, every index, unwrap, division, unreachable!/panic! site; Kani runs with overflow/bounds checks',
        level_text='Every function that is verified in any unit carries the implicit safety obligations (no overflow over mathematical integers, indices in bounds, unwrap on Some/Ok only, '
                   'no division by zero, panic!/unreachable! unreachable) under its stated precondition; this property\'s obligation set is the union over all units. '
                   'Nothing is claimed for functions not under contract (listed in DESIGN.md).',
        level_note='Preconditions that encode modest sizes (code length < 2^30, bit lengths that do not overflow usize) are assumptions of the property itself. Recursion depth is not modelled by either verifier (deeply nested values overflow the native stack: observation in KNOWN_FINDINGS.txt). Functions outside the contract set are listed in DESIGN section 9 item 5 (dump text, enum words except the field counter, ~), see, .s, repl.rs, file.rs, the C API, d2_plugin.rs except its pixel index).',
        not_decided=['every function not under contract'],
    ),
}

# properties not claimed: reason goes to MANIFEST.not_applicable
NOT_APPLICABLE = {
    'C03': 'clone independence is an aliasing property between two objects over later histories; Verus models Rc without identity/sharing and any Kani harness holding a State did not finish (>15 min): no contract within reach can express it',




}

TRUSTED_BASE = [
    'Verus 0.2026.09.13 + Z3 (SMT encoding, solver)',
    'rustc 1.98.1 front end used by Verus',
    'extraction rules R1-R11 preserve meaning (every application is listed in extraction_deltas)',
    'vstd specifications of std (Vec, Option, Result, integer ops)',
]
