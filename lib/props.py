"""Which units / harness groups decide which property (see DESIGN.md section 5)."""

PROPS = {
    'C04': dict(
        title='Bit-string operations depend only on the bit sequence',
        verus_units=['bitstr'],
        kani_groups=[],
        design_ref='DESIGN.md section 5 / C04',
        technique='Verus contracts (view() = bit sequence, type invariant) on functions extracted from src/bitstr.rs each run; Kani bounded stand-ins for adapter-chain functions',
        level_text='Every obligation is a deductive proof over all buffer lengths, alignments, ownership-independent '
                   'views and stale bits: each bit-string operation is specified against the plain bit sequence view() '
                   'and Verus discharges it function by function, callers against callee contracts.',
        level_note='Trusted: Verus/Z3, vstd std specs, the extraction rules (listed per run), assumed contracts of data_mut '
                   '(Rc::make_mut + Cow::to_mut), detach/eq_with/byte+hex export (bounded Kani stand-ins, labelled bounded).',
    ),
}

# properties not claimed: reason goes to MANIFEST.not_applicable
NOT_APPLICABLE = {
    'C03': 'clone independence is an aliasing property between two objects over later histories; Verus models Rc without identity/sharing and any Kani harness holding a State did not finish (>15 min): no contract within reach can express it',
    'C16': 'the lexer is str/char/parse code outside the Verus dialect and too heavy for Kani (Tok carries a Cell); printing goes through fmt; the bit-literal builder is covered under C04',
    'C18': 'the round-trip law lives entirely in the external base32/base64/z85 crates; assuming it would make the wrappers verify vacuously; the xeh-owned byte export is a C04 obligation',
    'C01': 'unit not built yet in this round (jump codec, backpatch and opcode contracts planned, DESIGN.md section 5)',
    'C02': 'unit not built yet in this round', 'C05': 'unit not built yet in this round', 'C06': 'unit not built yet in this round',
    'C07': 'unit not built yet in this round', 'C08': 'unit not built yet in this round', 'C09': 'unit not built yet in this round',
    'C10': 'unit not built yet in this round', 'C11': 'unit not built yet in this round', 'C12': 'unit not built yet in this round',
    'C13': 'unit not built yet in this round', 'C14': 'unit not built yet in this round', 'C15': 'unit not built yet in this round',
    'C17': 'unit not built yet in this round',
}

TRUSTED_BASE = [
    'Verus 0.2026.09.13 + Z3 (SMT encoding, solver)',
    'rustc 1.98.1 front end used by Verus',
    'extraction rules R1-R11 preserve meaning (every application is listed in extraction_deltas)',
    'vstd specifications of std (Vec, Option, Result, integer ops)',
]
