"""Which units / harness groups decide which property (see DESIGN.md section 5)."""

PROPS = {
    'C04': dict(
        title='Bit-string operations depend only on the bit sequence',
        verus_units=['bitstr'],
        kani_groups=['codec.rs'],
        design_ref='DESIGN.md section 5 / C04',
        bounded_note='Kani stand-ins for detach / eq_with / to_bytes / bytestr / to_bytes_with_padding / to_hex_string: 3-byte backing '
                     'buffer with symbolic contents, concrete ranges S..E from the stated index sets; labelled BOUNDED, not counted as proved',
        assumed_backed_by={'Bitstr::detach': 'c04_detach*'},
        not_decided=['from_hex_str (chars(): outside Verus, Kani on String parsing too heavy)',
                     'ownership situations are covered by contracts quantifying over any (range, buffer) pair, not by enumerating histories'],
        technique='Verus contracts (view() = bit sequence, type invariant) on functions extracted from src/bitstr.rs each run; Kani bounded stand-ins for adapter-chain functions',
        level_text='Every obligation is a deductive proof over all buffer lengths, alignments, ownership-independent '
                   'views and stale bits: each bit-string operation is specified against the plain bit sequence view() '
                   'and Verus discharges it function by function, callers against callee contracts.',
        level_note='Trusted: Verus/Z3, vstd std specs, the extraction rules (listed per run), assumed contracts of data_mut '
                   '(Rc::make_mut + Cow::to_mut), detach/eq_with/byte+hex export (bounded Kani stand-ins, labelled bounded).',
    ),
    'C05': dict(
        title='Number <-> bits codecs are exact inverses and independent of alignment',
        verus_units=['bitstr'],
        kani_groups=['codec.rs'],
        design_ref='DESIGN.md section 5 / C05',
        technique='Kani/CBMC harness families over concrete (width, offset, byte order) with fully symbolic values and backing bytes, '
                  'checked against a reference decoder that reads the bit sequence only; Verus contract on Iter8::next (the 8-bit grouping all codecs share)',
        level_text='Each family member (one width 1..128, one bit offset 0..7, one byte order) is a complete proof: all loops are bounded '
                   'by the concrete width with unwinding assertions on, the i128 value / the backing bytes (including stale bits around the '
                   'field) are fully symbolic. The family is exhaustive over the stated index set (thorough: all 128 widths x 8 offsets x 2 orders; '
                   'quick: boundary widths and offsets).',
        level_note='Trusted: Kani 0.68/CBMC bit-precise semantics incl. f32/f64 from/to bytes, the reference decoder in kani/codec.rs '
                   '(bit loop), Verus/Z3 for Iter8::next. Widths >128 are outside the property.',
    ),
    'C02': dict(
        title='Reverse stepping exactly undoes forward stepping',
        verus_units=['state'],
        kani_groups=[],
        frame_scan=True,
        design_ref='DESIGN.md section 5 / C02',
        technique='Verus contracts over a ghost machine model and an undo semantics of the reverse log: every recording primitive, '
                  'reverse_changes and fetch_and_run (all 21 opcode arms, verbatim) are proved against it, unbounded in stack depth and log length',
        level_text='Deductive proof per function: (1) every state-mutating primitive appends log entries whose undo (spec function `undo`, '
                   'applied the way rnext pops them) restores exactly the machine it started from, and this extends any earlier undoable '
                   'history (rev_ext); (2) reverse_changes implements `undo` for every entry kind; (3) fetch_and_run: a completed instruction '
                   'ends the log with SetIp(old ip) and everything below it undoes to the old machine, a failing instruction leaves only '
                   'undoable changes and the ip on itself. Quantified over all states, stack depths, log lengths, opcodes.',
        level_note='Assumed: the native-word contract for words called through a function pointer (call_native: keeps bases/ip, changes are '
                   'undoable) - proved only for the native words that are themselves under contract; rnext/run/next (closures capturing &mut self) '
                   'are not under contract, so "k backward steps" is the per-instruction inverse composed by hand; rpds/std contracts; derive(Clone) is structural.',
        not_decided=['rnext loop itself (pop until SetIp) - its building blocks reverse_changes/add_reverse_step are proved',
                     'native words not under contract are covered only by the assumed native-word contract'],
    ),
    'C14': dict(
        title='Resource limits are hard bounds and hitting one is recoverable',
        verus_units=['state'],
        kani_groups=[],
        frame_scan=True,
        design_ref='DESIGN.md section 5 / C14',
        technique='Verus contracts on check_stack_limit/push_data, check_heap_limit/alloc_heap, insn_meter_increase/fetch_and_run and the set_*_limit words',
        level_text='Deductive proof for all states and limit values: push_data succeeds iff len < S (so the stack never exceeds S), alloc_heap iff '
                   'len < H, the instruction meter is consulted before an instruction does anything and an instruction that fails the check '
                   'changes nothing; a failed check leaves the state unchanged, so raising the limit restores normal behaviour (the predicates depend on (len, limit) only).',
        level_note='Assumed: words not under contract reach data_stack/heap only through push_data/alloc_heap (checked mechanically by the frame scan in '
                   'thorough tier, not by proof); reverse_changes may restore a previously legal length.',
    ),
    'C15': dict(
        title='How a program is driven does not change what it does',
        verus_units=['state'],
        kani_groups=[],
        design_ref='DESIGN.md section 5 / C15',
        technique='Verus: each primitive and fetch_and_run has ONE machine-state postcondition that does not mention whether recording is on',
        level_text='Partial. Proved: recording on/off cannot change the machine - every primitive\'s successor machine is the same spec function of '
                   'the predecessor in both modes (no case split on is_recording in any ensures), including over_data whose reverse path re-enters drop_data.',
        level_note='NOT decided: eval == compile+run == compile+step* (run/next are closures over &mut self, outside Verus; State-level harnesses are out of Kani\'s reach). '
                   'Listed under not_decided in the evidence.',
        not_decided=['equivalence of the drive modes eval / compile+run / compile+step*'],
    ),
    'C17': dict(
        title='Every error points at the token that caused it',
        verus_units=['state'],
        kani_groups=[],
        design_ref='DESIGN.md section 5 / C17',
        technique='Verus: fetch_and_run leaves ctx.ip on the failing instruction (so the debug-map lookup names its token); debug-map/code invariants on the emitters',
        level_text='Partial. Proved for all states and opcodes: an instruction that fails leaves the instruction pointer unchanged, also inside a called '
                   'definition, so the run-time error location is the failing opcode\'s debug-map entry.',
        level_note='NOT decided: line/column arithmetic of token_location (string code), that build-time errors carry the failing token (next_name and all immediate words).',
        not_decided=['token_location line/column computation', 'build-time error token for every immediate word'],
    ),
}

# properties not claimed: reason goes to MANIFEST.not_applicable
NOT_APPLICABLE = {
    'C03': 'clone independence is an aliasing property between two objects over later histories; Verus models Rc without identity/sharing and any Kani harness holding a State did not finish (>15 min): no contract within reach can express it',
    'C16': 'the lexer is str/char/parse code outside the Verus dialect and too heavy for Kani (Tok carries a Cell); printing goes through fmt; the bit-literal builder is covered under C04',
    'C18': 'the round-trip law lives entirely in the external base32/base64/z85 crates; assuming it would make the wrappers verify vacuously; the xeh-owned byte export is a C04 obligation',
    'C01': 'unit not built yet in this round (jump codec, backpatch and opcode contracts planned, DESIGN.md section 5)',
 'C05': 'unit not built yet in this round', 'C06': 'unit not built yet in this round',
    'C07': 'unit not built yet in this round', 'C08': 'unit not built yet in this round', 'C09': 'unit not built yet in this round',
    'C10': 'unit not built yet in this round', 'C11': 'unit not built yet in this round', 'C12': 'unit not built yet in this round',
    'C13': 'unit not built yet in this round',

}

TRUSTED_BASE = [
    'Verus 0.2026.09.13 + Z3 (SMT encoding, solver)',
    'rustc 1.98.1 front end used by Verus',
    'extraction rules R1-R11 preserve meaning (every application is listed in extraction_deltas)',
    'vstd specifications of std (Vec, Option, Result, integer ops)',
]
