"""Which units / harness groups decide which property (see DESIGN.md section 5)."""

PROPS = {
    'C04': dict(
        title='Bit-string operations depend only on the bit sequence',
        verus_units=['bitstr'],
        kani_groups=['codec.rs'],
        design_ref='DESIGN.md section 5 / C04',
        bounded_note='Kani stand-ins for detach / eq_with / to_bytes / bytestr / to_bytes_with_padding / to_hex_string: 3-byte backing '
                     'buffer with symbolic contents, concrete ranges S..E from the stated index sets; labelled BOUNDED, not counted as proved',
        assumed_backed_by={'Bitstr::detach': 'c04_detach*'},
        not_decided=['from_hex_str (chars(): outside Verus, Kani on String parsing too heavy)',
                     'ownership situations are covered by contracts quantifying over any (range, buffer) pair, not by enumerating histories'],
        technique='Verus contracts (view() = bit sequence, type invariant) on functions extracted from src/bitstr.rs each run; Kani bounded stand-ins for adapter-chain functions',
        level_text='Every obligation is a deductive proof over all buffer lengths, alignments, ownership-independent '
                   'views and stale bits: each bit-string operation is specified against the plain bit sequence view() '
                   'and Verus discharges it function by function, callers against callee contracts.',
        level_note='Trusted: Verus/Z3, vstd std specs, the extraction rules (listed per run), assumed contracts of data_mut '
                   '(Rc::make_mut + Cow::to_mut), detach/eq_with/byte+hex export (bounded Kani stand-ins, labelled bounded).',
    ),
    'C05': dict(
        title='Number <-> bits codecs are exact inverses and independent of alignment',
        verus_units=['bitstr'],
        kani_groups=['codec.rs'],
        design_ref='DESIGN.md section 5 / C05',
        technique='Kani/CBMC harness families over concrete (width, offset, byte order) with fully symbolic values and backing bytes, '
                  'checked against a reference decoder that reads the bit sequence only; Verus contract on Iter8::next (the 8-bit grouping all codecs share)',
        level_text='Each family member (one width 1..128, one bit offset 0..7, one byte order) is a complete proof: all loops are bounded '
                   'by the concrete width with unwinding assertions on, the i128 value / the backing bytes (including stale bits around the '
                   'field) are fully symbolic. The family is exhaustive over the stated index set (thorough: all 128 widths x 8 offsets x 2 orders; '
                   'quick: boundary widths and offsets).',
        level_note='Trusted: Kani 0.68/CBMC bit-precise semantics incl. f32/f64 from/to bytes, the reference decoder in kani/codec.rs '
                   '(bit loop), Verus/Z3 for Iter8::next. Widths >128 are outside the property.',
    ),
}

# properties not claimed: reason goes to MANIFEST.not_applicable
NOT_APPLICABLE = {
    'C03': 'clone independence is an aliasing property between two objects over later histories; Verus models Rc without identity/sharing and any Kani harness holding a State did not finish (>15 min): no contract within reach can express it',
    'C16': 'the lexer is str/char/parse code outside the Verus dialect and too heavy for Kani (Tok carries a Cell); printing goes through fmt; the bit-literal builder is covered under C04',
    'C18': 'the round-trip law lives entirely in the external base32/base64/z85 crates; assuming it would make the wrappers verify vacuously; the xeh-owned byte export is a C04 obligation',
    'C01': 'unit not built yet in this round (jump codec, backpatch and opcode contracts planned, DESIGN.md section 5)',
    'C02': 'unit not built yet in this round', 'C05': 'unit not built yet in this round', 'C06': 'unit not built yet in this round',
    'C07': 'unit not built yet in this round', 'C08': 'unit not built yet in this round', 'C09': 'unit not built yet in this round',
    'C10': 'unit not built yet in this round', 'C11': 'unit not built yet in this round', 'C12': 'unit not built yet in this round',
    'C13': 'unit not built yet in this round', 'C14': 'unit not built yet in this round', 'C15': 'unit not built yet in this round',
    'C17': 'unit not built yet in this round',
}

TRUSTED_BASE = [
    'Verus 0.2026.09.13 + Z3 (SMT encoding, solver)',
    'rustc 1.98.1 front end used by Verus',
    'extraction rules R1-R11 preserve meaning (every application is listed in extraction_deltas)',
    'vstd specifications of std (Vec, Option, Result, integer ops)',
]
