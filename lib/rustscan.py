"""Minimal Rust tokenizer + item locator used to cut functions and type items
verbatim out of /repo/src on every run.  No parsing beyond what is needed to
skip comments/strings/chars/lifetimes and to match braces."""
import re

class ScanError(Exception):
    pass

IDENT_START = re.compile(r'[A-Za-z_]')
IDENT = re.compile(r'[A-Za-z_][A-Za-z0-9_]*')
NUM = re.compile(r'[0-9][A-Za-z0-9_]*(\.[0-9][A-Za-z0-9_]*)?')

def tokenize(src):
    """-> list of (kind, start, end); kinds: ws comment str char lifetime ident num punct"""
    toks = []
    i, n = 0, len(src)
    while i < n:
        c = src[i]
        if c.isspace():
            j = i + 1
            while j < n and src[j].isspace():
                j += 1
            toks.append(('ws', i, j)); i = j; continue
        if src.startswith('//', i):
            j = src.find('\n', i)
            j = n if j < 0 else j
            toks.append(('comment', i, j)); i = j; continue
        if src.startswith('/*', i):
            depth, j = 1, i + 2
            while j < n and depth:
                if src.startswith('/*', j): depth += 1; j += 2
                elif src.startswith('*/', j): depth -= 1; j += 2
                else: j += 1
            toks.append(('comment', i, j)); i = j; continue
        # raw / byte strings
        m = re.match(r'(b?r)(#*)"', src[i:i+40])
        if m and (i == 0 or not (src[i-1].isalnum() or src[i-1] == '_')):
            hashes = m.group(2)
            close = '"' + hashes
            j = src.find(close, i + len(m.group(0)))
            if j < 0: raise ScanError('unterminated raw string')
            j += len(close)
            toks.append(('str', i, j)); i = j; continue
        if c == '"' or (c == 'b' and i + 1 < n and src[i+1] == '"' and not (i and (src[i-1].isalnum() or src[i-1]=='_'))):
            j = i + (2 if c == 'b' else 1)
            while j < n and src[j] != '"':
                j += 2 if src[j] == '\\' else 1
            j += 1
            toks.append(('str', i, j)); i = j; continue
        if c == "'" or (c == 'b' and i + 1 < n and src[i+1] == "'" and not (i and (src[i-1].isalnum() or src[i-1]=='_'))):
            k = i + (1 if c == 'b' else 0)
            # char literal: '\..' or 'x'
            if k + 1 < n and src[k+1] == '\\':
                j = k + 2
                while j < n and src[j] != "'":
                    j += 1
                j += 1
                toks.append(('char', i, j)); i = j; continue
            if k + 2 < n and src[k+2] == "'":
                toks.append(('char', i, k + 3)); i = k + 3; continue
            # multi-byte char literal
            m2 = re.match(r"'[^'\\\n]'", src[k:k+8])
            if m2:
                toks.append(('char', i, k + m2.end())); i = k + m2.end(); continue
            m3 = IDENT.match(src, k + 1)
            if m3:
                toks.append(('lifetime', i, m3.end())); i = m3.end(); continue
            raise ScanError('bad quote at %d' % i)
        m = IDENT.match(src, i)
        if m:
            toks.append(('ident', i, m.end())); i = m.end(); continue
        m = NUM.match(src, i)
        if m:
            toks.append(('num', i, m.end())); i = m.end(); continue
        toks.append(('punct', i, i + 1)); i += 1
    return toks


class Source:
    def __init__(self, path, text=None):
        self.path = path
        self.text = open(path).read() if text is None else text
        self.toks = tokenize(self.text)
        # code tokens only (indexes into toks)
        self.code = [k for k, t in enumerate(self.toks) if t[0] not in ('ws', 'comment')]
        self._match = None

    def tt(self, k):
        t = self.toks[k]
        return self.text[t[1]:t[2]]

    def line_of(self, off):
        return self.text.count('\n', 0, off) + 1

    def matches(self):
        """map code-index of opening bracket -> code-index of closing bracket (and back)"""
        if self._match is None:
            st, m = [], {}
            pairs = {')': '(', ']': '[', '}': '{'}
            for ci, k in enumerate(self.code):
                t = self.toks[k]
                if t[0] != 'punct':
                    continue
                ch = self.text[t[1]]
                if ch in '([{':
                    st.append((ch, ci))
                elif ch in ')]}':
                    if not st or st[-1][0] != pairs[ch]:
                        raise ScanError('%s: unbalanced %s at line %d' % (self.path, ch, self.line_of(t[1])))
                    _, o = st.pop()
                    m[o] = ci; m[ci] = o
            if st:
                raise ScanError('%s: unclosed bracket' % self.path)
            self._match = m
        return self._match

    def ctext(self, ci):
        return self.tt(self.code[ci])

    # ------------------------------------------------------------------
    def top_items(self, lo=0, hi=None):
        """yield (start_ci, end_ci_exclusive) of items between code indexes lo..hi at one nesting level.
        An item ends at a ';' or at the '}' closing its first top-level '{' block."""
        m = self.matches()
        hi = len(self.code) if hi is None else hi
        ci = lo
        while ci < hi:
            start = ci
            # skip attributes  #[..]  #![..]
            while ci < hi and self.ctext(ci) == '#':
                cj = ci + 1
                if cj < hi and self.ctext(cj) == '!':
                    cj += 1
                if cj < hi and self.ctext(cj) == '[':
                    ci = m[cj] + 1
                else:
                    break
            # find end
            cj = ci
            end = None
            while cj < hi:
                t = self.ctext(cj)
                if t in '([':
                    cj = m[cj] + 1; continue
                if t == '{':
                    end = m[cj] + 1; break
                if t == ';':
                    end = cj + 1; break
                cj += 1
            if end is None:
                end = hi
            # `struct X {..}` may not be followed by ';' ; `struct X(..);` handled by ';'
            yield (start, ci, end)
            ci = end

    def item_header(self, body_start_ci, end_ci):
        """text of an item from its first non-attribute token to its '{' or ';' (whitespace-normalised)"""
        m = self.matches()
        parts = []
        cj = body_start_ci
        while cj < end_ci:
            t = self.ctext(cj)
            if t == '{' or t == ';':
                break
            if t in '([':
                # include bracketed text verbatim (normalised)
                a = self.toks[self.code[cj]][1]; b = self.toks[self.code[m[cj]]][2]
                parts.append(re.sub(r'\s+', ' ', self.text[a:b]))
                cj = m[cj] + 1
                continue
            parts.append(t)
            cj += 1
        return parts

    def find_impl_blocks(self, header):
        """all top-level impl blocks whose normalised header equals `header` (e.g. 'impl State',
        "impl<'a> Iterator for Bits<'a>").  -> list of (open_ci, close_ci)"""
        want = re.sub(r'\s+', '', header)
        m = self.matches()
        out = []
        for (s, b, e) in self.top_items():
            if b < e and self.ctext(b) == 'impl':
                # header text up to '{'
                cj = b
                while cj < e and self.ctext(cj) != '{':
                    cj += 1
                a = self.toks[self.code[b]][1]; z = self.toks[self.code[cj]][1]
                if re.sub(r'\s+', '', self.text[a:z]) == want:
                    out.append((cj, m[cj]))
        return out

    def find_fn(self, owner, name):
        """locate fn `name` in impl block(s) `owner` (None = top level of the file).
        -> dict(start_off, sig_end_off (offset of body '{'), end_off (after '}'), attrs_text)"""
        m = self.matches()
        ranges = [(None, None)] if owner is None else self.find_impl_blocks(owner)
        if owner is not None and not ranges:
            raise ScanError('%s: impl block `%s` not found' % (self.path, owner))
        found = []
        for (o, c) in ranges:
            lo, hi = (0, len(self.code)) if o is None else (o + 1, c)
            for (s, b, e) in self.top_items(lo, hi):
                # scan header tokens for `fn <name>`
                cj = b
                while cj < e:
                    t = self.ctext(cj)
                    if t == '(' and cj > b and self.ctext(cj - 1) == 'pub':
                        cj = m[cj] + 1
                        continue
                    if t == '{' or t == ';' or t == '(':
                        break
                    if t == 'fn' and cj + 1 < e and self.ctext(cj + 1) == name:
                        # body brace
                        ck = cj
                        while ck < e and self.ctext(ck) != '{':
                            if self.ctext(ck) in '([':
                                ck = m[ck] + 1
                            else:
                                ck += 1
                        if ck >= e:
                            raise ScanError('fn %s has no body' % name)
                        found.append((s, b, ck, m[ck]))
                        break
                    cj += 1
        if not found:
            raise ScanError('%s: fn `%s` not found in `%s`' % (self.path, name, owner or '<top>'))
        if len(found) > 1:
            raise ScanError('%s: fn `%s` ambiguous in `%s`' % (self.path, name, owner or '<top>'))
        s, b, ob, cb = found[0]
        off = lambda ci: self.toks[self.code[ci]][1]
        return dict(attrs=self.text[off(s):off(b)], start=off(b), body_open=off(ob),
                    end=self.toks[self.code[cb]][2],
                    line_start=self.line_of(off(b)), line_end=self.line_of(off(cb)))

    def find_type(self, kind, name):
        """top-level struct/enum/type/const item"""
        for (s, b, e) in self.top_items():
            cj = b
            # skip visibility
            hdr = []
            while cj < e and len(hdr) < 6:
                hdr.append(self.ctext(cj)); cj += 1
            # visibility may be `pub` or `pub ( crate )`
            h = [x for x in hdr]
            if h and h[0] == 'pub':
                h = h[1:]
                if h and h[0].startswith('('):
                    pass
            txt = ' '.join(hdr)
            mm = re.search(r'\b%s\s+%s\b' % (kind, re.escape(name)), txt)
            if mm:
                off = lambda ci: self.toks[self.code[ci]][1]
                endoff = self.toks[self.code[e - 1]][2]
                return dict(attrs=self.text[off(s):off(b)], start=off(b), end=endoff,
                            line_start=self.line_of(off(b)), line_end=self.line_of(endoff))
        raise ScanError('%s: %s `%s` not found' % (self.path, kind, name))
