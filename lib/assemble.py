"""Assemble a Verus input file from a unit template.

A unit template is Verus source (preamble: spec functions, lemmas, opaque leaf
types, assumed std contracts) with `//@` directives that splice in REAL code cut
out of /repo's working tree on every run:

  //@include <path under contracts/>
  //@type <src file> <struct|enum|type|const> <Name>
  //@use <contracts file> <key> [assumed]
  //@fn <src file> <key> [ret=<binder>] [props=C04,C08] [rename=<new>] [assumed]
  <requires/ensures/decreases clause lines>
  //@rule R1 R2 R3                 built-in rewrite rules (see DESIGN.md section 3)
  //@sub <RULE> `from` => `to` [*]  explicit textual rewrite, recorded as extraction delta
  //@entry | //@before `s` [n] | //@after `s` [n] | //@loop <n> [binder=<id>]
  <ghost lines: proof{..}, assert.., let ghost.., invariant.., decreases..>
  //@end

<key> is `Owner::name` (fn inside `impl Owner`), `"impl<'a> T for X<'a>"::name`, or `::name`
(top level of the file).  Everything an overlay inserts is checked to be ghost-only.
"""
import hashlib, os, re, sys
from rustscan import Source, ScanError, tokenize

REPO = os.environ.get('VERIF_REPO', '/repo')
ROOT = os.path.dirname(os.path.dirname(os.path.abspath(__file__)))
CONTRACTS = os.path.join(ROOT, 'contracts')


class AssembleError(Exception):
    """lost anchor / rule does not apply / malformed overlay: the run is UNDECIDED (exit 2)"""


GHOST_STARTS = {'proof', 'assert', 'invariant', 'invariant_except_break', 'decreases', 'ensures',
                'requires', 'reveal', 'broadcast', 'assert_by', 'recommends', 'no_unwind', 'opens_invariants'}


def check_ghost_only(block, where):
    """every top-level statement of an inserted block must be ghost"""
    toks = [(k, a, b) for (k, a, b) in tokenize(block) if k not in ('ws', 'comment')]
    depth = 0
    at_start = True
    i = 0
    while i < len(toks):
        k, a, b = toks[i]
        t = block[a:b]
        if at_start and depth == 0:
            if t == 'let':
                nxt = block[toks[i + 1][1]:toks[i + 1][2]] if i + 1 < len(toks) else ''
                if nxt not in ('ghost', 'tracked'):
                    raise AssembleError('%s: overlay inserts executable `let`' % where)
            elif t not in GHOST_STARTS:
                raise AssembleError('%s: overlay statement starts with `%s` (not ghost)' % (where, t))
            at_start = False
        if t in '([{':
            depth += 1
        elif t in ')]}':
            depth -= 1
            if depth == 0 and t == '}':
                # a block statement ended (proof {..} / assert .. by {..}); allow trailing ';' or ','
                at_start = True
                if i + 1 < len(toks) and block[toks[i + 1][1]:toks[i + 1][2]] in (';', ','):
                    i += 1
        elif t == ';' and depth == 0:
            at_start = True
        if re.search(r'\b(assume|admit)\s*\(', t):
            pass
        i += 1
    if re.search(r'\b(assume|admit)\s*\(', block):
        raise AssembleError('%s: overlay contains assume/admit' % where)


class FnSpec:
    def __init__(self):
        self.src = None; self.key = None
        self.ret = None; self.props = []; self.rename = None; self.assumed = False
        self.clauses = []       # header clause lines
        self.rules = []
        self.sigsubs = []
        self.subs = []          # (rule, frm, to, count)  count None = exactly one, '*' = all (>=1)
        self.inserts = []       # (kind, arg, n, binder, [lines])
        self.origin = None      # contracts file:line
        self.optional_anchor = False
        self.rlimit = None
        self.nodecreases = False
        self.combs = []         # (method, opt|res, n): inline that std combinator call with a closure literal into a match
        self.same_as = None     # `file.fns/key`: this (lifted) word carries the contract of that function
        self.noisolation = False  # #[verifier::loop_isolation(false)]: loops see the facts established before them
        self.stmt = None        # Rstmt: lift the one statement that starts with this text out of function `key` (with armsig)
        self.arm = None         # Rarm: lift the block of this match arm out of function `key`
        self.armsig = None      # .. as a function with this signature
        self.word = None        # lift the closure bound to this word name out of the word table `key`


def parse_key(key):
    key = key.split('#')[0]      # `#variant` distinguishes several contracts of one function
    m = re.match(r'^"([^"]+)"::(\w+)$', key)
    if m:
        return m.group(1), m.group(2)
    m = re.match(r'^::(\w+)$', key)
    if m:
        return None, m.group(1)
    m = re.match(r'^([\w<>\',& ]+)::(\w+)$', key)
    if m:
        return 'impl ' + m.group(1), m.group(2)
    raise AssembleError('bad fn key %r' % key)


def split_args(s):
    """split on spaces but keep "quoted strings" and `backquoted` strings together"""
    out, cur, q = [], '', None
    for ch in s:
        if q:
            cur += ch
            if ch == q:
                q = None
        elif ch in '"`':
            q = ch; cur += ch
        elif ch.isspace():
            if cur:
                out.append(cur); cur = ''
        else:
            cur += ch
    if cur:
        out.append(cur)
    return out


def parse_fn_blocks(lines, origin):
    """parse `//@fn .. //@end` blocks out of a list of lines -> list of FnSpec (and remaining lines
    replaced by markers).  Returns (items) where item is ('text', line) or ('fn', FnSpec)."""
    items = []
    i = 0
    while i < len(lines):
        ln = lines[i]
        s = ln.strip()
        if s.startswith('//@fn '):
            fs = FnSpec()
            fs.origin = '%s:%d' % (origin, i + 1)
            args = split_args(s[len('//@fn '):])
            fs.src, fs.key = args[0], args[1]
            for a in args[2:]:
                if a.startswith('ret='): fs.ret = a[4:]
                elif a.startswith('props='): fs.props = a[6:].split(',')
                elif a.startswith('rename='): fs.rename = a[7:]
                elif a == 'assumed': fs.assumed = True
                elif a.startswith('rlimit='): fs.rlimit = int(a[7:])
                elif a == 'nodecreases': fs.nodecreases = True
                elif a == 'noisolation': fs.noisolation = True
                elif a.startswith('word='): fs.word = a[5:].strip('"')
                elif a.startswith('arm='): fs.arm = a[4:].strip('"')
                elif a.startswith('stmt='): fs.stmt = a[5:].strip('"')
                elif a.startswith('armsig='): fs.armsig = a[7:].strip('"')
                elif a.startswith('same_as='): fs.same_as = a[8:]
                else: raise AssembleError('%s: bad //@fn option %r' % (fs.origin, a))
            i += 1
            cur = fs.clauses
            while i < len(lines):
                s = lines[i].strip()
                if s == '//@end':
                    break
                if s.startswith('//@rule'):
                    fs.rules += s.split()[1:]
                    cur = None
                elif s.startswith('//@sub ') or s.startswith('//@subsig ') or s.startswith('//@sub? '):
                    if s.startswith('//@sub? '):
                        # optional: applied wherever the text occurs, not an error when it does not occur
                        m = re.match(r'^//@sub\?\s+(\w+)\s+`(.*)`\s*=>\s*`(.*)`\s*$', s)
                        if not m:
                            raise AssembleError('%s:%d bad //@sub?' % (origin, i + 1))
                        fs.subs.append((m.group(1), m.group(2).replace('\\n', '\n'), m.group(3).replace('\\n', '\n'), '?'))
                        cur = None
                        i += 1
                        continue
                    m = re.match(r'^//@(sub|subsig)\s+(\w+)\s+`(.*)`\s*=>\s*`(.*)`\s*(\*|\d+|last)?\s*$', s)
                    if not m:
                        raise AssembleError('%s:%d bad //@sub' % (origin, i + 1))
                    (fs.subs if m.group(1) == 'sub' else fs.sigsubs).append((m.group(2), m.group(3).replace('\\n', '\n'), m.group(4).replace('\\n', '\n'), m.group(5)))
                    cur = None
                elif s.startswith('//@comb ') or s.startswith('//@comb? '):
                    a = s.split()
                    if len(a) < 3 or a[2] not in ('opt', 'res'):
                        raise AssembleError('%s:%d bad //@comb (method opt|res [n])' % (origin, i + 1))
                    # `//@comb?`: applied when the combinator is there (a body that no longer uses it is rendered as it is)
                    fs.combs.append((a[1] + ('?' if a[0].endswith('?') else ''), a[2], int(a[3]) if len(a) > 3 else 1))
                    cur = None
                elif s.startswith('//@entry'):
                    cur = []
                    fs.inserts.append(('entry', None, 1, None, cur))
                elif s.startswith('//@before') or s.startswith('//@after') or s.startswith('//@tail'):
                    m = re.match(r'^//@(before|after|tail)\s+`(.*?)`\s*(\d+)?\s*(?:from=`(.*)`)?\s*$', s)
                    if not m:
                        raise AssembleError('%s:%d bad anchor' % (origin, i + 1))
                    cur = []
                    # binder slot carries the optional `from` marker for line anchors
                    fs.inserts.append((m.group(1), m.group(2), int(m.group(3) or 1), m.group(4), cur))
                elif s.startswith('//@loop'):
                    m = re.match(r'^//@loop(\?)?\s+(\d+)(?:\s+binder=(\w+))?\s*$', s)
                    if not m:
                        raise AssembleError('%s:%d bad //@loop' % (origin, i + 1))
                    cur = []
                    # `//@loop? N`: the clauses of the N-th loop if the body has one (a body without it is rendered as it is)
                    fs.inserts.append(('loop', m.group(1), int(m.group(2)), m.group(3), cur))
                elif s.startswith('//@'):
                    raise AssembleError('%s:%d unknown directive %s' % (origin, i + 1, s))
                else:
                    if cur is None:
                        if s:
                            raise AssembleError('%s:%d stray text in fn block' % (origin, i + 1))
                    else:
                        cur.append(lines[i])
                i += 1
            if i >= len(lines):
                raise AssembleError('%s: //@fn without //@end' % fs.origin)
            items.append(('fn', fs))
        else:
            items.append(('text', ln))
        i += 1
    return items


_contract_cache = {}


def load_contracts(path):
    full = os.path.join(CONTRACTS, path)
    if full not in _contract_cache:
        lines = open(full).read().split('\n')
        d = {}
        for kind, it in parse_fn_blocks(lines, path):
            if kind == 'fn':
                if it.key in d:
                    raise AssembleError('%s: duplicate contract %s' % (path, it.key))
                d[it.key] = it
        _contract_cache[full] = d
    return _contract_cache[full]


_src_cache = {}


def get_source(rel):
    p = os.path.join(REPO, rel)
    if p not in _src_cache:
        try:
            _src_cache[p] = Source(p)
        except (OSError, ScanError) as e:
            raise AssembleError('cannot scan %s: %s' % (rel, e))
    return _src_cache[p]


# ---------------------------------------------------------------- rewrite rules

def code_tokens(text):
    return [(k, a, b) for (k, a, b) in tokenize(text) if k not in ('ws', 'comment')]


def match_close(text, toks, i):
    """toks[i] is an opening bracket: index of its matching closer"""
    depth = 0
    for j in range(i, len(toks)):
        t = text[toks[j][1]:toks[j][2]]
        if t in '([{':
            depth += 1
        elif t in ')]}':
            depth -= 1
            if depth == 0:
                return j
    raise AssembleError('unbalanced bracket in extracted text')


def rule_R1(text, deltas):
    """P.data[E] -> buf_get(&P.data, E);  &P.data[E] -> buf_slice(&P.data, E)   (P a dotted path)"""
    while True:
        toks = code_tokens(text)
        T = lambda j: text[toks[j][1]:toks[j][2]]
        hit = None
        for j in range(2, len(toks) - 1):
            if T(j) == 'data' and T(j - 1) == '.' and T(j + 1) == '[' and toks[j][2] == toks[j + 1][1]:
                # walk back over the path
                p = j - 2
                while p >= 2 and T(p - 1) == '.' and toks[p - 2][0] == 'ident':
                    p -= 2
                if toks[p][0] != 'ident':
                    continue
                close = match_close(text, toks, j + 1)
                amp = p >= 1 and T(p - 1) == '&'
                hit = (p, j, close, amp)
                break
        if not hit:
            return text
        p, j, close, amp = hit
        path = text[toks[p][1]:toks[j][2]]
        inner = text[toks[j + 1][2]:toks[close][1]]
        a = toks[p - 1][1] if amp else toks[p][1]
        z = toks[close][2]
        new = ('buf_slice(&%s, %s)' if amp else 'buf_get(&%s, %s)') % (path, inner)
        deltas.append(dict(rule='R1', original=text[a:z], rewritten=new))
        text = text[:a] + new + text[z:]


def rule_R2(text, body_open, deltas):
    """fn f(mut self, ..) {B}  ->  fn f(self, ..) { let mut this = self; B[self:=this] }"""
    sig = text[:body_open]
    if not re.search(r'\(\s*mut\s+self\b', sig):
        raise AssembleError('R2 does not apply (no `mut self`)')
    sig2 = re.sub(r'\(\s*mut\s+self\b', '(self', sig, count=1)
    body = text[body_open:]
    toks = code_tokens(body)
    out, last = [], 0
    n = 0
    for (k, a, b) in toks:
        if k == 'ident' and body[a:b] == 'self':
            out.append(body[last:a]); out.append('this'); last = b; n += 1
    out.append(body[last:])
    body2 = ''.join(out)
    body2 = body2[:1] + ' let mut this = self;' + body2[1:]
    deltas.append(dict(rule='R2', original='mut self parameter',
                       rewritten='self parameter + `let mut this = self;`, %d uses of self renamed to this' % n))
    return sig2 + body2, len(sig2)


def rule_R3(text, deltas):
    """format!(..) -> verif_fmt()"""
    while True:
        toks = code_tokens(text)
        T = lambda j: text[toks[j][1]:toks[j][2]]
        hit = None
        for j in range(len(toks) - 2):
            if T(j) == 'format' and T(j + 1) == '!' and T(j + 2) == '(':
                hit = (j, match_close(text, toks, j + 2)); break
        if not hit:
            return text
        j, c = hit
        a, z = toks[j][1], toks[c][2]
        deltas.append(dict(rule='R3', original=text[a:z], rewritten='verif_fmt()'))
        text = text[:a] + 'verif_fmt()' + text[z:]


def rule_R3c(text, deltas):
    """string constants: xeh_xstr!("..") and the *_TYPE_NAME constants -> verif_lit_xstr()  (message text dropped)"""
    n = 0
    while True:
        toks = code_tokens(text)
        T = lambda j: text[toks[j][1]:toks[j][2]]
        hit = None
        for j in range(len(toks)):
            t = T(j)
            if t == 'xeh_xstr' and j + 2 < len(toks) and T(j + 1) == '!' and T(j + 2) == '(':
                hit = (toks[j][1], toks[match_close(text, toks, j + 2)][2]); break
            if toks[j][0] == 'ident' and re.match(r'^[A-Z][A-Z_]*_(TYPE_NAME|ERRMSG)$', t):
                hit = (toks[j][1], toks[j][2]); break
        if not hit:
            break
        deltas.append(dict(rule='R3c', original=text[hit[0]:hit[1]], rewritten='verif_lit_xstr()'))
        text = text[:hit[0]] + 'verif_lit_xstr()' + text[hit[1]:]
        n += 1
    return text


def rule_R15(text, deltas):
    """`for I in (A..B).rev() {`  ->  `let verif_lo = A; let mut I = B; while I > verif_lo { I -= 1;`
    (same iteration order and bounds; Verus accepts `continue` in `while` but not in `for`)"""
    toks = code_tokens(text)
    T = lambda j: text[toks[j][1]:toks[j][2]]
    for j in range(len(toks) - 8):
        if T(j) == 'for' and toks[j + 1][0] == 'ident' and T(j + 2) == 'in' and T(j + 3) == '(':
            c = match_close(text, toks, j + 3)
            if c + 5 < len(toks) and T(c + 1) == '.' and T(c + 2) == 'rev' and T(c + 3) == '(' and T(c + 4) == ')' and T(c + 5) == '{':
                inner = text[toks[j + 3][2]:toks[c][1]]
                # split at the top-level `..`
                it = code_tokens(inner)
                depth = 0
                cut = None
                for k in range(len(it) - 1):
                    t = inner[it[k][1]:it[k][2]]
                    if t in '([{': depth += 1
                    elif t in ')]}': depth -= 1
                    elif t == '.' and depth == 0 and inner[it[k + 1][1]:it[k + 1][2]] == '.' and it[k][2] == it[k + 1][1]:
                        cut = (it[k][1], it[k + 1][2]); break
                if cut is None:
                    continue
                a_expr, b_expr = inner[:cut[0]].strip(), inner[cut[1]:].strip()
                v = T(j + 1)
                new = 'let verif_lo = %s; let mut %s = %s; while %s > verif_lo { %s -= 1;' % (a_expr, v, b_expr, v, v)
                a, z = toks[j][1], toks[c + 5][2]
                deltas.append(dict(rule='R15', original=text[a:z], rewritten=new))
                return text[:a] + new + text[z:]
    raise AssembleError('R15 does not apply (no `for I in (A..B).rev() {`)')


def rule_R18(text, deltas):
    """`for (P, Q) in E.enumerate() { BODY }`  ->  `let mut verif_cnt: usize = 0; for Q in E { let P = verif_cnt; verif_cnt += 1; BODY }`
    (Enumerate yields the running count with each item and then advances it, whatever BODY does - `continue` included;
    Verus has no spec for iterator adapters)"""
    toks = code_tokens(text)
    T = lambda j: text[toks[j][1]:toks[j][2]]
    for j in range(len(toks) - 10):
        if T(j) == 'for' and T(j + 1) == '(' and toks[j + 2][0] == 'ident' and T(j + 3) == ',':
            pc = match_close(text, toks, j + 1)
            if T(pc + 1) != 'in':
                continue
            # find `.enumerate() {`
            k = pc + 2
            depth = 0
            found = None
            while k + 4 < len(toks):
                t = T(k)
                if t in ('(', '[', '{'):
                    if t == '{' and depth == 0:
                        break
                    depth += 1
                elif t in (')', ']', '}'):
                    depth -= 1
                elif t == '.' and depth == 0 and T(k + 1) == 'enumerate' and T(k + 2) == '(' and T(k + 3) == ')' and T(k + 4) == '{':
                    found = k
                    break
                k += 1
            if found is None:
                continue
            bc = match_close(text, toks, found + 4)
            body = text[toks[found + 4][2]:toks[bc][1]]
            P = T(j + 2)
            Q = text[toks[j + 3][2]:toks[pc][1]].strip()
            E = text[toks[pc + 1][2]:toks[found][1]].strip()
            head = 'let mut verif_cnt: usize = 0;\nfor %s in %s {\nlet %s = verif_cnt;\nverif_cnt += 1;' % (Q, E, P)
            new = head + body.rstrip() + '\n}'
            a, z = toks[j][1], toks[bc][2]
            deltas.append(dict(rule='R18', original=text[a:toks[found + 4][2]], rewritten=head + ' .. }'))
            return text[:a] + new + text[z:]
    raise AssembleError('R18 does not apply (no `for (P, Q) in E.enumerate() {`)')


def rule_Rwrite(text, deltas, where):
    """`write!(F, "FMT", A0, A1, ..)` / `writeln!(..)`  ->  `({ let verif_w0 = &(A0); let verif_w1 = &(A1); .. verif_write(F) })`
    plus `verif_fmt_width(Ak);` for every argument the format string uses as a width (`k$`): the arguments are still
    evaluated (their arithmetic is checked), a width is checked against what std accepts, the text written is dropped
    (the sink `verif_write` is ASSUMED to return some fmt::Result).  Refused for named / inline arguments and `.*`."""
    n = 0
    while True:
        toks = code_tokens(text)
        T = lambda j: text[toks[j][1]:toks[j][2]]
        hit = None
        for j in range(len(toks) - 3):
            if toks[j][0] == 'ident' and T(j) in ('write', 'writeln') and T(j + 1) == '!' and T(j + 2) == '(':
                hit = j
                break
        if hit is None:
            break
        c = match_close(text, toks, hit + 2)
        # split the arguments at top-level commas
        args, depth, start = [], 0, toks[hit + 2][2]
        for k in range(hit + 3, c):
            t = T(k)
            if t in ('(', '[', '{'):
                depth += 1
            elif t in (')', ']', '}'):
                depth -= 1
            elif t == ',' and depth == 0:
                args.append(text[start:toks[k][1]].strip())
                start = toks[k][2]
        last = text[start:toks[c][1]].strip()
        if last:
            args.append(last)
        if len(args) < 2 or not args[1].startswith('"'):
            raise AssembleError('%s: Rwrite: `%s` has no literal format string' % (where, text[toks[hit][1]:toks[c][2]][:60]))
        fmt = args[1]
        if re.search(r'\{[A-Za-z_]', fmt) or '.*' in fmt or any(re.match(r'^\w+\s*=[^=]', a) for a in args[2:]):
            raise AssembleError('%s: Rwrite: named / inline arguments or `.*` in %s' % (where, fmt[:40]))
        widths = sorted(set(int(x) for spec in re.findall(r'\{[^{}]*\}', fmt) for x in re.findall(r'(\d+)\$', spec)))
        if any(w >= len(args) - 2 for w in widths):
            raise AssembleError('%s: Rwrite: width argument out of range in %s' % (where, fmt[:40]))
        parts = ['let verif_w%d = &(%s);' % (i, a) for i, a in enumerate(args[2:])]
        parts += ['verif_fmt_width(%s);' % args[2 + w] for w in widths]
        new = '({ %s verif_write(%s) })' % (' '.join(parts), args[0])
        deltas.append(dict(rule='Rwrite', original=text[toks[hit][1]:toks[c][2]], rewritten=new))
        text = text[:toks[hit][1]] + new + text[toks[c][2]:]
        n += 1
    if n == 0:
        raise AssembleError('Rwrite does not apply (no write!/writeln!)')
    return text


def rule_R19(text, deltas):
    """`for P in E.take(N) { BODY }`  ->  `let mut verif_left: usize = N; for P in E { if verif_left == 0 { break; } verif_left -= 1; BODY }`
    (Take yields at most N items; the rewritten loop asks the inner iterator for one more item than Take would, which for
    the side-effect-free iterators of this code base cannot be observed; Verus has no spec for iterator adapters)"""
    toks = code_tokens(text)
    T = lambda j: text[toks[j][1]:toks[j][2]]
    for j in range(len(toks) - 8):
        if T(j) != 'for':
            continue
        # find `in` at depth 0, then `.take(N) {`
        k = j + 1
        depth = 0
        while k < len(toks) and not (T(k) == 'in' and depth == 0):
            if T(k) in ('(', '[', '{'): depth += 1
            elif T(k) in (')', ']', '}'): depth -= 1
            k += 1
        if k >= len(toks):
            continue
        q = k + 1
        depth = 0
        found = None
        while q + 3 < len(toks):
            t = T(q)
            if t in ('(', '['):
                depth += 1
            elif t in (')', ']'):
                depth -= 1
            elif t == '{' and depth == 0:
                break
            elif t == '.' and depth == 0 and T(q + 1) == 'take' and T(q + 2) == '(':
                c = match_close(text, toks, q + 2)
                if T(c + 1) == '{':
                    found = (q, c)
                    break
            q += 1
        if found is None:
            continue
        q, c = found
        n_expr = text[toks[q + 2][2]:toks[c][1]].strip()
        pat = text[toks[j + 1][1]:toks[k][1]].strip()
        e_expr = text[toks[k][2]:toks[q][1]].strip()
        new = 'let mut verif_left: usize = %s;\nfor %s in %s {\nif verif_left == 0 { break; }\nverif_left -= 1;' % (n_expr, pat, e_expr)
        a, z = toks[j][1], toks[c + 1][2]
        deltas.append(dict(rule='R19', original=text[a:z], rewritten=new))
        return rule_R19_more(text[:a] + new + text[z:], deltas)
    raise AssembleError('R19 does not apply (no `for P in E.take(N) {`)')


def rule_R19_more(text, deltas):
    try:
        return rule_R19(text, deltas)
    except AssembleError:
        return text


def rule_R21(text, deltas):
    """`for PAT in EXPR { BODY }`  ->  `let mut verif_it = EXPR; while let Some(PAT) = verif_it.next() { BODY }`
    (what a `for` over an Iterator desugars to; Verus rejects `continue` inside `for` but accepts it in `while let`).
    Applies to the FIRST `for` of the body."""
    toks = code_tokens(text)
    T = lambda j: text[toks[j][1]:toks[j][2]]
    for j in range(len(toks) - 4):
        if T(j) != 'for' or (j and T(j - 1) == '.'):
            continue
        k = j + 1
        depth = 0
        while k < len(toks) and not (T(k) == 'in' and depth == 0):
            if T(k) in ('(', '[', '{'): depth += 1
            elif T(k) in (')', ']', '}'): depth -= 1
            k += 1
        if k >= len(toks):
            continue
        q = k + 1
        depth = 0
        while q < len(toks):
            t = T(q)
            if t in ('(', '['):
                depth += 1
            elif t in (')', ']'):
                depth -= 1
            elif t == '{' and depth == 0:
                break
            q += 1
        if q >= len(toks):
            continue
        pat = text[toks[j + 1][1]:toks[k][1]].strip()
        expr = text[toks[k][2]:toks[q][1]].strip()
        new = 'let mut verif_it = %s;\nwhile let Some(%s) = verif_it.next() {' % (expr, pat)
        a, z = toks[j][1], toks[q][2]
        deltas.append(dict(rule='R21', original=text[a:z], rewritten=new))
        return text[:a] + new + text[z:]
    raise AssembleError('R21 does not apply (no `for PAT in EXPR {`)')


def rule_R22(text, deltas):
    """`for (A, B) in X.zip(Y.cycle()) {`  ->  the loop that std's `Zip::next` (`let x = a.next()?; let y = b.next()?`) and
    `Cycle::next` (`match iter.next() { None => { iter = orig.clone(); iter.next() } y => y }`, `orig` = a clone taken when the
    adapter is built) spell out; Verus has no spec for iterator adapters.  Applies to the FIRST such `for`."""
    m = re.search(r'for \((\w+), (\w+)\) in ([\w.()]+?)\.zip\(([\w.()]+?)\.cycle\(\)\) \{', text)
    if not m:
        raise AssembleError('R22 does not apply (no `for (A, B) in X.zip(Y.cycle()) {`)')
    A, B, X, Y = m.groups()
    new = ('let mut verif_za = %s;\n    let mut verif_zb = %s;\n    let verif_zb0 = verif_zb.clone();\n    loop {\n'
           '        let %s = match verif_za.next() { Some(verif_v) => verif_v, None => { break; } };\n'
           '        let %s = match verif_zb.next() { Some(verif_v) => verif_v, None => { verif_zb = verif_zb0.clone(); '
           'match verif_zb.next() { Some(verif_v) => verif_v, None => { break; } } } };' % (X, Y, A, B))
    deltas.append(dict(rule='R22', original=m.group(0), rewritten=new))
    return text[:m.start()] + new + text[m.end():]


def rule_R16(text, deltas):
    """`X.extend(IT.map(|PAT| E));`  ->  `for verif_it in IT { let PAT = verif_it; X.push(E); }`
    (Vec::extend over a Map adapter is the push loop; Verus has no spec for iterator adapters)"""
    toks = code_tokens(text)
    T = lambda j: text[toks[j][1]:toks[j][2]]
    for j in range(len(toks) - 8):
        if toks[j][0] == 'ident' and T(j + 1) == '.' and T(j + 2) == 'extend' and T(j + 3) == '(':
            c = match_close(text, toks, j + 3)
            if T(c + 1) != ';' or T(c - 1) != ')':
                continue
            # the last call inside must be `.map(|PAT| E)`
            k = c - 1
            # find the '(' matching toks[k]
            o = None
            for q in range(j + 4, k):
                if T(q) == '(' and match_close(text, toks, q) == k:
                    o = q; break
            if o is None or T(o - 1) != 'map' or T(o - 2) != '.' or T(o + 1) != '|':
                continue
            b = o + 2
            while b < k and T(b) != '|':
                b += 1
            if b >= k:
                continue
            pat = text[toks[o + 1][2]:toks[b][1]].strip()
            expr = text[toks[b][2]:toks[k][1]].strip()
            it = text[toks[j + 3][2]:toks[o - 2][1]].strip()
            x = T(j)
            a, z = toks[j][1], toks[c + 1][2]
            ind = text[text.rfind('\n', 0, a) + 1:a]
            ind = ind if not ind.strip() else ''
            new = 'for verif_it in %s {\n%s    let %s = verif_it;\n%s    %s.push(%s);\n%s}' % (it, ind, pat, ind, x, expr, ind)
            deltas.append(dict(rule='R16', original=text[a:z], rewritten=new))
            return text[:a] + new + text[z:]
    raise AssembleError('R16 does not apply (no `X.extend(IT.map(|PAT| E));`)')


def rule_R17(text, deltas):
    """`for X in (E).chunks(N) {`  ->  the same walk written out (a last short chunk included, as `chunks` yields it):
    `let verif_sl = E; let mut verif_ci: usize = 0; while verif_ci < verif_sl.len() {
       let verif_ce = if verif_sl.len() - verif_ci < N { verif_sl.len() } else { verif_ci + N };
       let X = &verif_sl[verif_ci..verif_ce]; verif_ci = verif_ce;`   (core::slice::Chunks has no Verus spec)"""
    toks = code_tokens(text)
    T = lambda j: text[toks[j][1]:toks[j][2]]
    for j in range(len(toks) - 8):
        if T(j) == 'for' and toks[j + 1][0] == 'ident' and T(j + 2) == 'in' and T(j + 3) == '(':
            c = match_close(text, toks, j + 3)
            if c + 3 < len(toks) and T(c + 1) == '.' and T(c + 2) == 'chunks' and T(c + 3) == '(':
                c2 = match_close(text, toks, c + 3)
                if T(c2 + 1) != '{':
                    continue
                e = text[toks[j + 3][2]:toks[c][1]].strip()
                n = text[toks[c + 3][2]:toks[c2][1]].strip()
                x = T(j + 1)
                a, z = toks[j][1], toks[c2 + 1][2]
                ind = text[text.rfind('\n', 0, a) + 1:a]
                ind = ind if not ind.strip() else ''
                new = ('let verif_sl = %s;\n%slet mut verif_ci: usize = 0;\n%swhile verif_ci < verif_sl.len() {\n'
                       '%s    let verif_ce = if verif_sl.len() - verif_ci < %s { verif_sl.len() } else { verif_ci + %s };\n'
                       '%s    let %s = &verif_sl[verif_ci..verif_ce];\n%s    verif_ci = verif_ce;') % (e, ind, ind, ind, n, n, ind, x, ind)
                deltas.append(dict(rule='R17', original=text[a:z], rewritten=new))
                return text[:a] + new + text[z:]
    raise AssembleError('R17 does not apply (no `for X in (E).chunks(N) {`)')


def rule_Rcomb(text, method, kind, n, deltas, where):
    """Rcomb: the n-th `RECV.method(|P| BODY)` on an Option (`opt`) / Result (`res`) -> the `match` that std defines the
    combinator as.  Refused when BODY contains `?` or `return` (they would leave the closure, not the function)."""
    toks = code_tokens(text)
    T = lambda j: text[toks[j][1]:toks[j][2]]
    cnt = 0
    for j in range(1, len(toks) - 3):
        if T(j) == method and T(j - 1) == '.' and T(j + 1) == '(' and T(j + 2) == '|':
            cnt += 1
            if cnt != n:
                continue
            c = match_close(text, toks, j + 1)
            if T(j + 3) == '|' and toks[j + 2][2] == toks[j + 3][1]:
                pat, b0 = None, j + 4
            else:
                k = j + 3
                while k < c and T(k) != '|':
                    k += 1
                pat, b0 = text[toks[j + 2][2]:toks[k][1]].strip(), k + 1
            body = text[toks[b0][1]:toks[c][1]].strip()
            bt = code_tokens(body)
            if any(body[a:b] in ('?', 'return') for (_k, a, b) in bt):
                raise AssembleError('%s: //@comb %s: closure body contains `?` or `return`' % (where, method))
            # receiver: walk back over the postfix chain
            r = j - 1          # the '.'
            k = r - 1
            while k >= 0:
                t = T(k)
                if t in (')', ']'):
                    depth = 0
                    while k >= 0:
                        tt = T(k)
                        if tt in (')', ']', '}'): depth += 1
                        elif tt in ('(', '[', '{'):
                            depth -= 1
                            if depth == 0: break
                        k -= 1
                    k -= 1
                    continue
                if toks[k][0] in ('ident', 'num', 'str', 'char') or t in ('.', '::', '?', 'self', 'Self') or (t == ':' ):
                    if toks[k][0] == 'ident' and t in ('return', 'let', 'in', 'match', 'if', 'else', 'mut', 'ref', 'break'):
                        break
                    k -= 1
                    continue
                break
            start = toks[k + 1][1]
            recv = text[start:toks[r][1]].strip()
            if not recv:
                raise AssembleError('%s: //@comb %s: no receiver found' % (where, method))
            P = pat if pat is not None else None
            table = {
                ('map_err', 'res'): 'match %s { Ok(verif_v) => Ok(verif_v), Err(%s) => Err(%s) }',
                ('and_then', 'opt'): 'match %s { Some(%s) => %s, None => None }',
                ('and_then', 'res'): 'match %s { Ok(%s) => %s, Err(verif_e) => Err(verif_e) }',
                ('map', 'opt'): 'match %s { Some(%s) => Some(%s), None => None }',
                ('map', 'res'): 'match %s { Ok(%s) => Ok(%s), Err(verif_e) => Err(verif_e) }',
            }
            table0 = {
                ('ok_or_else', 'opt'): 'match %s { Some(verif_v) => Ok(verif_v), None => Err(%s) }',
                ('unwrap_or_else', 'opt'): 'match %s { Some(verif_v) => verif_v, None => %s }',
            }
            if (method, kind) in table and P is not None:
                new = table[(method, kind)] % (recv, P, body)
            elif (method, kind) in table0 and P is None:
                new = table0[(method, kind)] % (recv, body)
            else:
                raise AssembleError('%s: //@comb %s %s: not a known combinator shape' % (where, method, kind))
            end = toks[c][2]
            deltas.append(dict(rule='Rcomb', original=text[start:end][:160], rewritten=(new[:160])))
            return text[:start] + new + text[end:]
    raise AssembleError('%s: //@comb %s: occurrence %d not found' % (where, method, n))


def rule_R10(text, deltas, where):
    """R10: a `loop { .. }` in TAIL POSITION of the function (the body's tail expression, or the tail of a match arm /
    if-else branch / block that is itself in tail position): every valued `break EXPR` of that loop -> `return EXPR`
    (Verus has no valued `break`; the value of a tail-position loop IS the function's return value)."""
    toks = code_tokens(text)
    T = lambda j: text[toks[j][1]:toks[j][2]]
    if T(0) != '{':
        raise AssembleError('%s: R10: body does not start with `{`' % where)
    loops = []

    def tail_of_block(o):
        """o = index of `{`: find the tail expression's first token index range inside the block"""
        c = match_close(text, toks, o)
        # split top-level statements by `;` (brackets skipped); the tail is what follows the last top-level `;`
        j = o + 1
        last = o + 1
        while j < c:
            t = T(j)
            if t in '([{':
                cj = match_close(text, toks, j)
                # a block statement (`if .. {}` / `match .. {}` / `loop {}` / `while`/`for`) not followed by `;` may end a statement
                j = cj + 1
                continue
            if t == ';':
                last = j + 1
            j += 1
        return last, c

    def visit_tail(lo, hi):
        """tokens [lo, hi) form an expression in tail position"""
        if lo >= hi:
            return
        # skip over leading statements that are block-like without `;` : take the LAST block-like item
        j = lo
        items = []
        while j < hi:
            start = j
            t = T(j)
            if t == 'loop' and T(j + 1) == '{':
                c = match_close(text, toks, j + 1)
                items.append(('loop', start, c)); j = c + 1; continue
            if t == 'match':
                k = j + 1
                while k < hi and T(k) != '{':
                    if T(k) in '([':
                        k = match_close(text, toks, k)
                    k += 1
                c = match_close(text, toks, k)
                items.append(('match', k, c)); j = c + 1; continue
            if t == 'if':
                # if COND { } [else if COND { }]* [else { }]
                branches = []
                k = j
                while True:
                    k += 1
                    while k < hi and T(k) != '{':
                        if T(k) in '([':
                            k = match_close(text, toks, k)
                        k += 1
                    c = match_close(text, toks, k)
                    branches.append((k, c))
                    if c + 1 < hi and T(c + 1) == 'else':
                        if T(c + 2) == 'if':
                            k = c + 2
                            continue
                        c2 = match_close(text, toks, c + 2)
                        branches.append((c + 2, c2))
                        c = c2
                    break
                items.append(('if', branches, c)); j = c + 1; continue
            if t == '{':
                c = match_close(text, toks, j)
                items.append(('block', j, c)); j = c + 1; continue
            if t in ('while', 'for'):
                k = j + 1
                while k < hi and T(k) != '{':
                    if T(k) in '([':
                        k = match_close(text, toks, k)
                    k += 1
                c = match_close(text, toks, k)
                items.append(('other', start, c)); j = c + 1; continue
            # an ordinary expression up to hi
            items.append(('expr', start, hi - 1)); j = hi
        if not items:
            return
        it = items[-1]
        if it[0] == 'loop':
            loops.append((it[1], it[2]))
        elif it[0] == 'block':
            a, b = tail_of_block(it[1]); visit_tail(a, b)
        elif it[0] == 'if':
            for (o, c) in it[1]:
                a, b = tail_of_block(o); visit_tail(a, b)
        elif it[0] == 'match':
            o, c = it[1], it[2]
            # arms: PAT => EXPR ,   (EXPR either a block or up to the next top-level `,`)
            j = o + 1
            while j < c:
                # find `=>` at depth 0
                k = j
                while k < c and not (T(k) == '=' and T(k + 1) == '>' and toks[k][2] == toks[k + 1][1]):
                    if T(k) in '([{':
                        k = match_close(text, toks, k)
                    k += 1
                if k >= c:
                    break
                e0 = k + 2
                if T(e0) == '{':
                    ec = match_close(text, toks, e0)
                    a, b = tail_of_block(e0); visit_tail(a, b)
                    j = ec + 1
                    if j < c and T(j) == ',':
                        j += 1
                else:
                    k2 = e0
                    while k2 < c and T(k2) != ',':
                        if T(k2) in '([{':
                            k2 = match_close(text, toks, k2)
                        k2 += 1
                    visit_tail(e0, k2)
                    j = k2 + 1

    a, b = tail_of_block(0)
    visit_tail(a, b)
    if not loops:
        raise AssembleError('%s: R10 does not apply (no `loop` in tail position)' % where)
    edits = []
    for (lo, hi) in loops:
        j = lo + 2
        while j < hi:
            t = T(j)
            if t in ('loop', 'while', 'for'):
                k = j + 1
                while k < hi and T(k) != '{':
                    if T(k) in '([':
                        k = match_close(text, toks, k)
                    k += 1
                j = match_close(text, toks, k) + 1
                continue
            if t == '|' :
                pass
            if t == 'break' and T(j + 1) not in (';', '}', ','):
                edits.append((toks[j][1], toks[j][2]))
            j += 1
    if not edits:
        raise AssembleError('%s: R10 does not apply (no valued `break`)' % where)
    for (a, b) in sorted(edits, reverse=True):
        text = text[:a] + 'return' + text[b:]
    deltas.append(dict(rule='R10', original='break EXPR (x%d, tail-position loops)' % len(edits), rewritten='return EXPR'))
    return text


def rule_Rsearch(text, deltas, where):
    """Rsearch: `RECV.iter().position(CLOSURE)` / `.rposition(CLOSURE)` -> `verif_position(&RECV, CLOSURE)` /
    `verif_rposition(..)`: generic helpers of the preamble, VERIFIED against the first / last index that satisfies the
    predicate (that they agree with std's slice iterator is the assumption)."""
    n = 0
    while True:
        toks = code_tokens(text)
        T = lambda j: text[toks[j][1]:toks[j][2]]
        hit = None
        for j in range(3, len(toks) - 2):
            if T(j) in ('position', 'rposition', 'rfind', 'find') and T(j - 1) == '.' and T(j - 2) == ')' and T(j - 3) == '(' and T(j - 4) == 'iter' and T(j - 5) == '.' and T(j + 1) == '(':
                c = match_close(text, toks, j + 1)
                # receiver before `.iter()`
                r = j - 5
                k = r - 1
                while k >= 0:
                    t = T(k)
                    if t in (')', ']'):
                        depth = 0
                        while k >= 0:
                            tt = T(k)
                            if tt in (')', ']', '}'): depth += 1
                            elif tt in ('(', '[', '{'):
                                depth -= 1
                                if depth == 0: break
                            k -= 1
                        k -= 1
                        continue
                    if (toks[k][0] in ('ident', 'num') and t not in ('return', 'let', 'in', 'match', 'if', 'else', 'mut')) or t in ('.', ':'):
                        k -= 1
                        continue
                    break
                start = toks[k + 1][1]
                recv = text[start:toks[r][1]].strip()
                clo = text[toks[j + 1][2]:toks[c][1]].strip()
                new = 'verif_%s(%s%s, %s)' % (T(j), '' if T(j) == 'find' else '&', recv, clo)
                hit = (start, toks[c][2], new)
                break
        if not hit:
            break
        deltas.append(dict(rule='Rsearch', original=text[hit[0]:hit[1]][:160], rewritten=hit[2][:160]))
        text = text[:hit[0]] + hit[2] + text[hit[1]:]
        n += 1
    if n == 0:
        raise AssembleError('%s: Rsearch does not apply (no `.iter().position/rposition/rfind(closure)`)' % where)
    return text


def rule_Rskip(text, deltas, where):
    """Rskip: `RECV.iter().skip(A).take(B)` -> `verif_skip_take(RECV, A, B)` (helper with the ASSUMED std meaning: the
    elements [min(A,len), min(A+B,len)) in order); A and B are copied as written."""
    toks = code_tokens(text)
    T = lambda j: text[toks[j][1]:toks[j][2]]
    for j in range(2, len(toks) - 8):
        if T(j) == 'iter' and T(j - 1) == '.' and T(j + 1) == '(' and T(j + 2) == ')' and T(j + 3) == '.' and T(j + 4) == 'skip' and T(j + 5) == '(':
            c1 = match_close(text, toks, j + 5)
            if not (T(c1 + 1) == '.' and T(c1 + 2) == 'take' and T(c1 + 3) == '('):
                continue
            c2 = match_close(text, toks, c1 + 3)
            k = j - 2
            while k >= 0 and (toks[k][0] == 'ident' or T(k) in ('.', ':')) and T(k) not in ('in', 'let', 'return', 'match', 'if'):
                k -= 1
            start = toks[k + 1][1]
            recv = text[start:toks[j - 1][1]].strip()
            a = text[toks[j + 5][2]:toks[c1][1]].strip()
            b = text[toks[c1 + 3][2]:toks[c2][1]].strip()
            new = 'verif_skip_take(%s, %s, %s)' % (recv, a, b)
            deltas.append(dict(rule='Rskip', original=text[start:toks[c2][2]], rewritten=new))
            return text[:start] + new + text[toks[c2][2]:]
    raise AssembleError('%s: Rskip does not apply (no `.iter().skip(A).take(B)`)' % where)


def name_return(sig, binder):
    """`-> T` -> `-> (binder: T)`"""
    toks = code_tokens(sig)
    T = lambda j: sig[toks[j][1]:toks[j][2]]
    # find the parameter list: first '(' after `fn name` (skip generics)
    j = 0
    while j < len(toks) and T(j) != 'fn':
        j += 1
    j += 2
    if j < len(toks) and T(j) == '<':
        depth = 0
        while j < len(toks):
            if T(j) == '<': depth += 1
            elif T(j) == '>' and T(j - 1) != '-':
                depth -= 1
                if depth == 0:
                    j += 1; break
            j += 1
    if j >= len(toks) or T(j) != '(':
        raise AssembleError('cannot find parameter list in `%s`' % sig.strip())
    c = match_close(sig, toks, j)
    if c + 2 < len(toks) + 1 and c + 2 <= len(toks) - 1 + 1 and c + 1 < len(toks) and T(c + 1) == '-' and T(c + 2) == '>':
        a = toks[c + 2][2]
        # return type ends at `where` (depth 0) or end of sig
        z = len(sig)
        depth = 0
        for k in range(c + 3, len(toks)):
            t = T(k)
            if t in '([<': depth += 1
            elif t in ')]>' and not (t == '>' and T(k - 1) == '-'): depth -= 1
            elif t == 'where' and depth == 0:
                z = toks[k][1]; break
        ty = sig[a:z].strip()
        return sig[:a] + ' (%s: %s)' % (binder, ty) + ('\n' if z == len(sig) else ' ') + sig[z:]
    raise AssembleError('ret= given but fn has no return type: `%s`' % sig.strip())


# ---------------------------------------------------------------- fn expansion

def find_line_with(lines, sub, n, lo):
    cnt = 0
    for i in range(lo, len(lines)):
        if sub in lines[i]:
            cnt += 1
            if cnt == n:
                return i
    return None


def _mangle(name):
    out = ''
    for ch in name:
        if ch.isalnum() or ch == '_':
            out += ch
        else:
            out += {'!': '_bang', '>': '_to', '-': '_', '?': '_q', '<': '_lt', '=': '_eq', '+': '_plus', '*': '_star', '/': '_slash'}.get(ch, '_x%02x' % ord(ch))
    return out


def lift_word(src, loc, word, where):
    """Rword: the word table.  `XS.defword("name", |xs| BODY)?;` inside the table function (after expanding the
    file's own macro_rules invocations textually) becomes `fn verif_word_<name>(xs: &mut Xstate) -> Xresult { BODY }`;
    a function path `XS.defword("name", f)?;` becomes `{ f(xs) }`.  -> (fn text, line_start, line_end, original)"""
    text = src.text
    body = text[loc['body_open']:loc['end']]
    base = loc['body_open']
    # macro_rules of the file:  name -> (params, body)
    macros = {}
    for m in re.finditer(r'macro_rules!\s*(\w+)\s*\{', text):
        toks = code_tokens(text[m.end() - 1:])
        T = lambda j: text[m.end() - 1 + toks[j][1]:m.end() - 1 + toks[j][2]]
        try:
            c = match_close(text[m.end() - 1:], toks, 0)
        except AssembleError:
            continue
        # ( params ) => { body } ;
        if T(1) != '(':
            continue
        pc = match_close(text[m.end() - 1:], toks, 1)
        params = [T(j + 1) for j in range(2, pc) if T(j) == '$']
        j = pc + 1
        while j < c and T(j) != '{':
            j += 1
        if j >= c:
            continue
        bc = match_close(text[m.end() - 1:], toks, j)
        mb = text[m.end() - 1 + toks[j][2]:m.end() - 1 + toks[bc][1]]
        macros[m.group(1)] = (params, mb)
    # statements of the table, with the line each one comes from
    stmts = []      # (line, text)
    toks = code_tokens(body)
    T = lambda j: body[toks[j][1]:toks[j][2]]
    j = 1
    while j < len(toks) - 1:
        if toks[j][0] == 'ident' and T(j) in macros and T(j + 1) == '!' and T(j + 2) == '(':
            c = match_close(body, toks, j + 2)
            args = [a.strip() for a in body[toks[j + 2][2]:toks[c][1]].split(',')]
            params, mb = macros[T(j)]
            if len(args) == len(params):
                ex = mb
                for pn, av in zip(params, args):
                    ex = re.sub(r'\$' + pn + r'\b', av, ex)
                line = src.line_of(base + toks[j][1])
                for st in ex.split(';'):
                    if st.strip():
                        stmts.append((line, line, st.strip() + ';'))
            j = c + 1
            continue
        if toks[j][0] == 'ident' and T(j + 1) == '.' and T(j + 2) in ('defword', 'def_immediate') and T(j + 3) == '(':
            c = match_close(body, toks, j + 3)
            stmts.append((src.line_of(base + toks[j][1]), src.line_of(base + toks[c][2]), body[toks[j][1]:toks[c][2]] + '?;'))
            j = c + 1
            continue
        j += 1
    hits = []
    for (l0, l1, st) in stmts:
        tk = code_tokens(st)
        S = lambda k: st[tk[k][1]:tk[k][2]]
        if len(tk) < 6 or S(1) != '.' or S(2) not in ('defword', 'def_immediate') or S(3) != '(':
            continue
        c = match_close(st, tk, 3)
        # first argument: a string literal or concat!(..)
        k = 4
        if S(k) == 'concat' and S(k + 1) == '!':
            cc = match_close(st, tk, k + 2)
            parts = []
            for q in range(k + 3, cc):
                t = S(q)
                if t == ',':
                    continue
                parts.append(t[1:-1] if t.startswith('"') else t)
            nm = ''.join(parts)
            k = cc + 1
        elif S(k).startswith('"'):
            nm = S(k)[1:-1]
            k += 1
        else:
            continue
        if S(k) != ',':
            continue
        arg = st[tk[k][2]:tk[c][1]].strip()
        if nm == word:
            hits.append((l0, l1, arg, st))
    if len(hits) != 1:
        raise AssembleError('anchor lost: %s: word "%s" is bound %d times in the word table' % (where, word, len(hits)))
    l0, l1, arg, st = hits[0]
    m = re.match(r'^\|\s*(\w+)\s*\|\s*(.*)$', arg, re.S)
    if m:
        var, b = m.group(1), m.group(2).strip()
        if not (b.startswith('{') and b.endswith('}')):
            b = '{\n    ' + b + '\n}'
    elif re.match(r'^[\w:]+$', arg):
        var, b = 'xs', '{\n    ' + arg + '(xs)\n}'
    else:
        raise AssembleError('%s: word "%s": binding `%s` is neither a closure nor a function path' % (where, word, arg[:60]))
    fn = 'fn verif_word_%s(%s: &mut State) -> Xresult %s' % (_mangle(word), var, b)
    return fn, l0, l1, st


def lift_arm(src, loc, arm, armsig, where):
    """Rarm: one arm of the `match` of a function.  `PATTERN => { BLOCK }` inside function `key` becomes
    `fn SIG { <the const items the function declares before the match> BLOCK }`: the variables the pattern binds and the
    locals of the function the block uses are the parameters of SIG.  Everything else of the function is dropped.
    -> (fn text, line_start, line_end, original arm head)"""
    text = src.text
    body = text[loc['body_open']:loc['end']]
    base = loc['body_open']
    # the pattern may be laid out over several lines: white space in `arm` matches any white space
    rx = re.compile(r'\s+'.join(re.escape(w) for w in arm.split()) + r'\s*=>\s*')
    ms = list(rx.finditer(body))
    if len(ms) != 1:
        raise AssembleError('anchor lost: %s: match arm `%s =>` found %d times' % (where, arm, len(ms)))
    idx = ms[0].start()
    toks = code_tokens(body)
    ob = None
    for j in range(len(toks)):
        if toks[j][1] == ms[0].end():
            ob = j
            break
    if ob is not None and body[toks[ob][1]:toks[ob][2]] == '{':
        cb = match_close(body, toks, ob)
        block = body[toks[ob][2]:toks[cb][1]]
    else:
        # an expression arm `PATTERN => EXPR,`: the expression up to the comma that ends the arm
        depth = 0
        cb = None
        for j in range(ob, len(toks)):
            t = body[toks[j][1]:toks[j][2]]
            if t in ('(', '[', '{'):
                depth += 1
            elif t in (')', ']', '}'):
                if depth == 0:
                    cb = j - 1
                    break
                depth -= 1
            elif t == ',' and depth == 0:
                cb = j
                break
        if cb is None:
            raise AssembleError('anchor lost: %s: match arm `%s =>` does not end' % (where, arm))
        block = '\n' + body[toks[ob][1]:toks[cb][1]] + '\n'
    consts = re.findall(r'^\s*const\s+\w+\s*:\s*[^=;]+=\s*[^;]+;', body[:idx], re.M)
    fn = 'fn %s {\n%s%s}' % (armsig, ''.join('    ' + c.strip() + '\n' for c in consts), block)
    return fn, src.line_of(base + idx), src.line_of(base + toks[cb][2]), arm + ' => { .. }'


def lift_stmt(src, loc, stmt, armsig, where):
    """Rstmt: one `let NAME = EXPR;` statement of a function whose surroundings are outside the dialect.  The statement
    that starts with `stmt` (exactly one) becomes `fn SIG { <the statement> Ok(NAME) }`: the variables it reads are the
    parameters of SIG.  Everything else of the function is dropped.  -> (fn text, line_start, line_end, original head)"""
    text = src.text
    body = text[loc['body_open']:loc['end']]
    base = loc['body_open']
    hits = [m.start() for m in re.finditer(r'(?m)^[ \t]*' + re.escape(stmt), body)]
    if len(hits) != 1:
        raise AssembleError('anchor lost: %s: statement `%s` found %d times' % (where, stmt, len(hits)))
    idx = hits[0]
    toks = code_tokens(body)
    depth = 0
    end = None
    for j in range(len(toks)):
        if toks[j][1] < idx:
            continue
        t = body[toks[j][1]:toks[j][2]]
        if t in ('(', '[', '{'):
            depth += 1
        elif t in (')', ']', '}'):
            depth -= 1
        elif t == ';' and depth == 0:
            end = toks[j][2]
            break
    if end is None:
        raise AssembleError('anchor lost: %s: statement `%s` does not end' % (where, stmt))
    m = re.match(r'\s*let\s+(?:mut\s+)?(\w+)', body[idx:end])
    if not m:
        raise AssembleError('%s: Rstmt: `%s` is not a `let NAME = ..;` statement' % (where, stmt))
    fn = 'fn %s {\n%s\n    Ok(%s)\n}' % (armsig, body[idx:end], m.group(1))
    return fn, src.line_of(base + idx), src.line_of(base + end), body[idx:end].strip()[:60]


def expand_fn(fs, assumed_override=False, notes=None):
    """-> (text, meta)"""
    owner, name = parse_key(fs.key)
    src = get_source(fs.src)
    try:
        loc = src.find_fn(owner, name)
    except ScanError as e:
        raise AssembleError('anchor lost: %s' % e)
    orig = src.text[loc['start']:loc['end']]
    deltas = []
    if fs.same_as is not None and not fs.clauses:
        cfile, ckey = fs.same_as.split('/', 1)
        cf = load_contracts(cfile)
        if ckey not in cf:
            raise AssembleError('%s: same_as: no contract %s in %s' % (fs.origin, ckey, cfile))
        cl = list(cf[ckey].clauses)
        if parse_key(ckey)[0] is not None:      # a method: its contract speaks about `self`
            cl = [re.sub(r'\bself\b', 'xs', c) for c in cl]
        fs.clauses = cl
        fs.ret = cf[ckey].ret
    if fs.word is not None:
        where0 = '%s %s' % (fs.src, fs.key)
        orig, l0, l1, stmt = lift_word(src, loc, fs.word, where0)
        loc = dict(loc, line_start=l0, line_end=l1, attrs='')
        deltas.append(dict(rule='Rword', original=stmt, rewritten=orig.split('{')[0].strip() + ' { <the bound closure body / call of the bound function> }'))
    if fs.arm is not None:
        where0 = '%s %s' % (fs.src, fs.key)
        orig, l0, l1, stmt = lift_arm(src, loc, fs.arm, fs.armsig, where0)
        loc = dict(loc, line_start=l0, line_end=l1, attrs='')
        deltas.append(dict(rule='Rarm', original=stmt, rewritten='fn ' + fs.armsig + ' { <const items of the function> <the block of the arm> }'))
    if fs.stmt is not None:
        where0 = '%s %s' % (fs.src, fs.key)
        orig, l0, l1, stmt = lift_stmt(src, loc, fs.stmt, fs.armsig, where0)
        loc = dict(loc, line_start=l0, line_end=l1, attrs='')
        deltas.append(dict(rule='Rstmt', original=stmt, rewritten='fn ' + fs.armsig + ' { <that statement> Ok(<its variable>) }'))
    sha = hashlib.sha256(orig.encode()).hexdigest()
    lifted = fs.word is not None or fs.arm is not None or fs.stmt is not None
    body_open = (orig.index('{') if lifted else loc['body_open'] - loc['start'])
    text = orig
    if loc['attrs'].strip():
        deltas.append(dict(rule='attrs', original=loc['attrs'].strip(), rewritten='(dropped)'))
    assumed = fs.assumed or assumed_override
    where = '%s %s' % (fs.src, fs.key)

    # R8 visibility
    if text.startswith('pub fn '):
        text = 'pub(crate) fn ' + text[len('pub fn '):]
        body_open += len('(crate)')
        deltas.append(dict(rule='R8', original='pub fn', rewritten='pub(crate) fn'))
    if fs.rename:
        text2 = re.sub(r'\bfn\s+%s\b' % re.escape(name), 'fn ' + fs.rename, text, count=1)
        body_open += len(text2) - len(text)
        text = text2
        deltas.append(dict(rule='rename', original=name, rewritten=fs.rename))

    if not assumed:
        if 'R2' in fs.rules:
            text, body_open = rule_R2(text, body_open, deltas)
        sig, body = text[:body_open], text[body_open:]
        if 'R1' in fs.rules:
            body = rule_R1(body, deltas)
        if 'R3' in fs.rules:
            body = rule_R3(body, deltas)
        if 'R3c' in fs.rules:
            body = rule_R3c(body, deltas)
        if 'R15' in fs.rules:
            body = rule_R15(body, deltas)
        if 'Rwrite' in fs.rules:
            body = rule_Rwrite(body, deltas, where)
        if 'R19' in fs.rules:
            body = rule_R19(body, deltas)
        if 'R18' in fs.rules:
            body = rule_R18(body, deltas)
        if 'R21' in fs.rules:
            body = rule_R21(body, deltas)
        if 'R22' in fs.rules:
            body = rule_R22(body, deltas)
        if 'R16' in fs.rules:
            body = rule_R16(body, deltas)
        if 'R17' in fs.rules:
            body = rule_R17(body, deltas)
        if 'R10' in fs.rules:
            body = rule_R10(body, deltas, where)
        if 'Rsearch' in fs.rules:
            body = rule_Rsearch(body, deltas, where)
        if 'Rskip' in fs.rules:
            body = rule_Rskip(body, deltas, where)
        for (cm, ck, cn) in fs.combs:
            if cm.endswith('?'):
                try:
                    body = rule_Rcomb(body, cm[:-1], ck, cn, deltas, where)
                except AssembleError as e:
                    if 'not found' not in str(e):
                        raise
            else:
                body = rule_Rcomb(body, cm, ck, cn, deltas, where)
        for (rule, frm, to, cnt) in fs.subs:
            k = body.count(frm)
            if cnt == '?':
                if k:
                    body = body.replace(frm, to)
                    deltas.append(dict(rule=rule, original=frm, rewritten=to, times=k))
                continue
            if cnt == 'last' and k >= 1:
                idx = body.rfind(frm)
                body = body[:idx] + to + body[idx + len(frm):]
                deltas.append(dict(rule=rule, original=frm, rewritten=to, times=1))
                continue
            if k == 0 or (cnt is None and k != 1) or (cnt not in (None, '*') and k < int(cnt)):
                raise AssembleError('%s: //@sub %s `%s` matches %d times' % (where, rule, frm, k))
            if cnt is None or cnt == '*':
                body = body.replace(frm, to)
                times = k
            else:
                # replace only the cnt-th occurrence
                idx = -1
                for _ in range(int(cnt)):
                    idx = body.find(frm, idx + 1)
                body = body[:idx] + to + body[idx + len(frm):]
                times = 1
            deltas.append(dict(rule=rule, original=frm, rewritten=to, times=times))
    else:
        sig = text[:body_open]
        if 'R2' in fs.rules:
            sig = re.sub(r'\(\s*mut\s+self\b', '(self', sig, count=1)
        body = None

    for (rule, frm, to, cnt) in fs.sigsubs:
        if sig.count(frm) != 1:
            raise AssembleError('%s: //@subsig %s `%s` matches %d times' % (where, rule, frm, sig.count(frm)))
        sig = sig.replace(frm, to)
        deltas.append(dict(rule=rule, original=frm, rewritten=to, where='signature'))
    if fs.ret:
        sig = name_return(sig, fs.ret)
    clauses = [c.rstrip() for c in fs.clauses if c.strip()]
    if clauses:
        check_ghost_only('\n'.join(clauses), where + ' header')
    header = sig.rstrip() + '\n' + ''.join(c + '\n' for c in clauses)

    lost = []
    if assumed:
        out = '#[verifier::external_body]\n' + header + '{ unimplemented!() }\n'
    else:
        # insertions
        blines = body.split('\n')
        orig_blines = list(blines)
        ins_before = {}   # line index -> [text]
        ins_after = {}
        inline = []       # (line idx, col, text)  for loops / entry
        btoks = None
        for (kind, arg, n, binder, content) in fs.inserts:
            block = '\n'.join(content)
            if block.strip():
                check_ghost_only(block, where + ' @' + kind)
            if kind == 'entry':
                inline.append((0, 1, '\n' + block + '\n', 'entry'))
            elif kind in ('before', 'after'):
                lo = 0
                if binder:
                    lo = find_line_with(orig_blines, binder, 1, 0)
                    if lo is None:
                        lost.append('%s `%s` from `%s`' % (kind, arg, binder))
                        continue
                li = find_line_with(orig_blines, arg, n, lo)
                if li is None:
                    lost.append('%s `%s` #%d' % (kind, arg, n))
                    continue
                (ins_before if kind == 'before' else ins_after).setdefault(li, []).append(block)
            elif kind == 'tail':
                # Rtail: `EXPR` (single-line tail expression) -> `let verif_tail = EXPR; <ghost> verif_tail`
                li = find_line_with(orig_blines, arg, n, 0)
                if li is None:
                    lost.append('tail `%s` #%d' % (arg, n))
                    continue
                ln0 = blines[li]
                st = ln0.strip()
                # drop a trailing line comment
                for (kk, aa, bb) in tokenize(st):
                    if kk == 'comment' and st[aa:bb].startswith('//'):
                        st = st[:aa].rstrip()
                        break
                ind = ln0[:len(ln0) - len(ln0.lstrip())]
                if st.startswith('return ') and st.endswith(';'):
                    ex = st[len('return '):-1]
                    blines[li] = '%s{ let verif_tail = %s;\n%s\n%sreturn verif_tail; }' % (ind, ex, block, ind)
                    deltas.append(dict(rule='Rtail', original=st, rewritten='{ let verif_tail = %s; <ghost> return verif_tail; }' % ex))
                    continue
                if st.endswith('{') or st.endswith('('):
                    # multi-line tail expression: it runs to the bracket that closes the one opened on this line
                    # and must be the last thing in its block (next code line starts with `}`)
                    depth = 0
                    last = None
                    for q in range(li, len(blines)):
                        for (kk, aa, bb) in tokenize(blines[q]):
                            if kk in ('ws', 'comment'):
                                continue
                            t = blines[q][aa:bb]
                            if t in ('{', '(', '['):
                                depth += 1
                            elif t in ('}', ')', ']'):
                                depth -= 1
                        if depth <= 0:
                            last = q
                            break
                    nxt = [x.strip() for x in blines[(last or 0) + 1:] if x.strip()]
                    if last is None or depth != 0 or not blines[last].strip().endswith(('}', ')')) or not nxt or not nxt[0].startswith('}'):
                        raise AssembleError('%s: //@tail `%s`: cannot delimit the multi-line tail expression' % (where, arg))
                    expr = '\n'.join(blines[li:last + 1])
                    blines[li] = '%slet verif_tail = %s;\n%s\n%sverif_tail' % (ind, expr.strip(), block, ind)
                    for q in range(li + 1, last + 1):
                        blines[q] = ''
                    deltas.append(dict(rule='Rtail', original=expr.strip()[:80] + ' ...', rewritten='let verif_tail = <that expression>; <ghost> verif_tail'))
                    continue
                if st.endswith(',') and ' => ' in st and not st.rstrip(',').rstrip().endswith(('{', '}')):
                    # the value of a match arm: `PAT => EXPR,` -> `PAT => { let verif_tail = EXPR; <ghost> verif_tail },`
                    pat, ex = st[:-1].split(' => ', 1)
                    blines[li] = '%s%s => { let verif_tail = %s;\n%s\n%sverif_tail },' % (ind, pat, ex, block, ind)
                    deltas.append(dict(rule='Rtail', original=st, rewritten='%s => { let verif_tail = %s; <ghost> verif_tail },' % (pat, ex)))
                    continue
                if st.endswith(';') or st.endswith(','):
                    raise AssembleError('%s: //@tail `%s` is not a single-line tail expression' % (where, arg))
                blines[li] = '%slet verif_tail = %s;\n%s\n%sverif_tail' % (ind, st, block, ind)
                deltas.append(dict(rule='Rtail', original=st, rewritten='let verif_tail = %s; <ghost> verif_tail' % st))
            elif kind == 'loop':
                if btoks is None:
                    btoks = code_tokens(body)
                T = lambda j: body[btoks[j][1]:btoks[j][2]]
                loops = [j for j in range(len(btoks)) if btoks[j][0] == 'ident' and T(j) in ('while', 'for', 'loop')
                         and not (j and T(j - 1) in ('.',))]
                if n > len(loops):
                    if arg != '?':
                        lost.append('loop %d' % n)
                    continue
                j = loops[n - 1]
                # header brace
                k = j + 1
                in_pos = None
                while k < len(btoks):
                    t = T(k)
                    if t in '([':
                        k = match_close(body, btoks, k) + 1; continue
                    if t == 'in' and in_pos is None and T(j) == 'for':
                        in_pos = btoks[k][2]
                    if t == '{':
                        break
                    k += 1
                if k >= len(btoks):
                    lost.append('loop %d header' % n); continue
                brace_off = btoks[k][1]
                inline.append(('off', brace_off, '\n' + block + '\n', 'loop'))
                if binder:
                    if in_pos is None:
                        lost.append('loop %d is not a for loop (binder)' % n); continue
                    inline.append(('off', in_pos, ' %s:' % binder, 'binder'))
        # apply: convert everything to absolute offsets in body
        if any(k == 'tail' for (k, _a, _n, _b, _c) in fs.inserts):
            # loop-header offsets were computed on the text before the tail rewrite: shift them
            new_body = '\n'.join(blines)
            if inline and any(it[0] == 'off' for it in inline):
                # recompute offsets by locating each tail-rewritten line start; a tail line after every loop header keeps offsets valid
                first_tail = min(starts_of for starts_of in [sum(len(x) + 1 for x in body.split('\n')[:i]) for i, l in enumerate(blines) if 'verif_tail' in l])
                if any(it[0] == 'off' and it[1] > first_tail for it in inline):
                    raise AssembleError('%s: //@tail before a //@loop header in one function is not supported' % where)
            body = new_body   # elements may now hold embedded newlines; offsets below stay consistent
        starts = [0]
        for l in blines:
            starts.append(starts[-1] + len(l) + 1)
        edits = []
        for li, blocks in ins_before.items():
            edits.append((starts[li], ''.join(b + '\n' for b in blocks)))
        for li, blocks in ins_after.items():
            edits.append((starts[li + 1], ''.join(b + '\n' for b in blocks)))
        for it in inline:
            if it[0] == 'off':
                edits.append((it[1], it[2]))
            else:
                # right after the opening '{' (and after the R2 prologue if there is one)
                edits.append((len('{ let mut this = self;') if 'R2' in fs.rules else 1, it[2]))
        edits.sort(key=lambda e: e[0], reverse=True)
        for off, txt in edits:
            body = body[:off] + txt + body[off:]
        out = header + body + '\n'
        if fs.rlimit:
            out = '#[verifier::rlimit(%d)]\n' % fs.rlimit + out
        if fs.nodecreases:
            out = '#[verifier::exec_allows_no_decreases_clause]\n' + out
        if fs.noisolation:
            out = '#[verifier::loop_isolation(false)]\n' + out
    meta = dict(name=fs.key, file=fs.src, lines=[loc['line_start'], loc['line_end']], sha256=sha,
                mode='assumed' if assumed else 'verified', props=fs.props, deltas=deltas,
                contract=fs.origin, lost_anchors=lost, vname=('verif_word_' + _mangle(fs.word)) if fs.word is not None else (re.match(r'\s*(\w+)', fs.armsig).group(1) if (fs.arm is not None or fs.stmt is not None) else (fs.rename or name)),
                owner=(None if (fs.word is not None or fs.arm is not None or fs.stmt is not None) else owner))
    return out, meta


def expand_type(srcrel, kind, name, keep=None):
    src = get_source(srcrel)
    try:
        loc = src.find_type(kind, name)
    except ScanError as e:
        raise AssembleError('anchor lost: %s' % e)
    text = src.text[loc['start']:loc['end']]
    deltas = []
    if loc['attrs'].strip():
        deltas.append(dict(rule='R9', original=loc['attrs'].strip(),
                           rewritten=('#[derive(%s)]' % keep) if keep else '(dropped; specs in overlay)'))
    if keep:
        text = '#[derive(%s)]\n' % keep + text
    if text.startswith('pub(crate) '):
        text = 'pub ' + text[len('pub(crate) '):]
        deltas.append(dict(rule='R8', original='pub(crate)', rewritten='pub'))
    if text.startswith('struct ') or text.startswith('enum '):
        text = 'pub ' + text
        deltas.append(dict(rule='R8', original='(private)', rewritten='pub'))
    meta = dict(name='%s %s' % (kind, name), file=srcrel, lines=[loc['line_start'], loc['line_end']],
                sha256=hashlib.sha256(text.encode()).hexdigest(), mode='type', deltas=deltas, props=[])
    return text + '\n', meta


def expand_guarded(fs, want_assumed, demote):
    """expand one function; if its overlay / rewrite rules no longer apply to the (changed) text, fall back
    to the assumed rendering and mark it: the function is then UNDECIDED, the rest of the unit is still decided"""
    if want_assumed:
        return expand_fn(fs, assumed_override=True)
    if fs.key in demote:
        t, m = expand_fn(fs, assumed_override=True)
        m['demoted'] = True
        return t, m
    try:
        return expand_fn(fs)
    except AssembleError as e:
        if str(e).startswith('anchor lost'):
            raise
        t, m = expand_fn(fs, assumed_override=True)
        m['demoted'] = True
        m['assemble_error'] = str(e)
        return t, m


def assemble(unit_path, demote=()):
    """-> (generated text, metas)  where each meta has gen_lines=[lo,hi] in the generated file"""
    out_lines = []
    metas = []

    def emit(text, meta=None):
        lo = len(out_lines) + 1
        ls = text.split('\n')
        if ls and ls[-1] == '':
            ls = ls[:-1]
        out_lines.extend(ls)
        if meta is not None:
            meta['gen_lines'] = [lo, len(out_lines)]
            metas.append(meta)

    def process(path, depth=0):
        if depth > 8:
            raise AssembleError('include depth')
        lines = open(path).read().split('\n')
        rel = os.path.relpath(path, ROOT)
        for kind, it in parse_fn_blocks(lines, rel):
            if kind == 'fn':
                t, m = expand_guarded(it, False, demote)
                emit(t, m)
                continue
            s = it.strip()
            if s.startswith('//@include '):
                process(os.path.join(CONTRACTS, s.split()[1]), depth + 1)
            elif s.startswith('//@type '):
                a = s.split()
                keep = None
                for x in a[4:]:
                    if x.startswith('keep='):
                        keep = x[5:].replace(',', ', ')
                t, m = expand_type(a[1], a[2], a[3], keep)
                emit(t, m)
            elif s.startswith('//@use '):
                a = split_args(s[len('//@use '):])
                cf = load_contracts(a[0])
                keys = [a[1]]
                if a[1] not in cf:
                    raise AssembleError('%s: no contract %s in %s' % (rel, a[1], a[0]))
                t, m = expand_guarded(cf[a[1]], 'assumed' in a[2:], demote)
                emit(t, m)
            elif s.startswith('//@'):
                raise AssembleError('%s: unknown directive `%s`' % (rel, s))
            else:
                emit(it)

    process(unit_path)
    return '\n'.join(out_lines) + '\n', metas


if __name__ == '__main__':
    try:
        txt, metas = assemble(sys.argv[1])
    except AssembleError as e:
        print('ASSEMBLE ERROR:', e, file=sys.stderr); sys.exit(2)
    if len(sys.argv) > 2:
        open(sys.argv[2], 'w').write(txt)
    else:
        sys.stdout.write(txt)
    for m in metas:
        print('//', m['mode'], m['name'], m['file'], m['lines'], 'gen', m['gen_lines'], 'deltas', len(m['deltas']), 'lost', m.get('lost_anchors'), file=sys.stderr)
        if m.get('demoted'):
            print('// DEMOTED', m['name'], m.get('assemble_error'), file=sys.stderr)
