"""Run Verus on an assembled unit and turn its output into per-function obligations."""
import json, os, re, subprocess, time, hashlib
from assemble import assemble, AssembleError, ROOT

GEN = os.path.join(ROOT, '.cache', 'gen')

SMT_LEVEL = ('postcondition not satisfied', 'precondition not satisfied', 'invariant not satisfied',
             'assertion failed', 'possible arithmetic underflow/overflow', 'possible division by zero',
             'loop invariant not satisfied', 'decreases not satisfied', 'unreachable', 'panic',
             'may fail to meet its declared type invariant', 'possible bit shift underflow/overflow',
             'index out of bounds', 'not satisfied', 'possible arithmetic', 'possible overflow',
             'possible underflow', 'constructed value may fail')
UNDECIDED = ('rlimit', 'Resource limit', 'timeout', 'timed out')


class UnitResult:
    def __init__(self, unit):
        self.unit = unit
        self.status = 'ok'          # ok | undecided
        self.reason = ''
        self.metas = []
        self.fn_results = {}        # fn key -> dict(success, time_ms, rlimit, errors=[...], undecided=bool)
        self.other_errors = []      # errors outside any extracted fn
        self.verus_summary = {}
        self.wall_s = 0.0
        self.gen_path = None
        self.cmd = ''
        self.assumptions = []


def scan_assumptions(text):
    """every trusted item in the generated file (mechanical scan)"""
    out = []
    lines = text.split('\n')
    for i, ln in enumerate(lines):
        s = ln.strip()
        if s.startswith('//'):
            continue
        if 'assume_specification' in s:
            m = re.search(r'assume_specification[^\[]*\[\s*(.*)\s*\]\s*\(', s)
            out.append('assume_specification ' + (m.group(1).strip() if m else s))
        elif 'external_body' in s:
            # name of the next fn/struct
            for j in range(i, min(i + 6, len(lines))):
                m = re.search(r'\b(fn|struct)\s+(\w+)', lines[j])
                if m:
                    out.append('external_body %s %s' % (m.group(1), m.group(2)))
                    break
        elif re.search(r'\b(assume|admit)\s*\(', s):
            out.append('ASSUME/ADMIT: ' + s)
        elif 'uninterp spec fn' in s:
            m = re.search(r'spec fn\s+(\w+)', s)
            out.append('uninterpreted spec fn ' + (m.group(1) if m else s))
    return out


def _run_unit_once(unit, demote=(), rlimit=None, extra_args=()):
    """assemble + verify one unit.  Never raises: problems become status 'undecided'."""
    res = UnitResult(unit)
    t0 = time.time()
    os.makedirs(GEN, exist_ok=True)
    try:
        text, metas = assemble(os.path.join(ROOT, 'units', unit + '.rs'), demote=demote)
    except AssembleError as e:
        res.status = 'undecided'; res.reason = 'extraction: %s' % e
        res.wall_s = time.time() - t0
        return res
    res.metas = metas
    res.assumptions = scan_assumptions(text)
    tag = '%s.%d' % (unit, os.getpid())
    gen = os.path.join(GEN, tag + '.rs')
    open(gen, 'w').write(text)
    res.gen_path = gen
    cmd = ['verus', os.path.basename(gen), '--crate-name', unit, '--output-json', '--time-expanded',
           '--triggers-mode', 'silent', '--error-format=json', '--multiple-errors', '4',
           '--cfg', 'feature="calc_limit"'] + list(extra_args)
    if rlimit:
        cmd += ['--rlimit', str(rlimit)]
    res.cmd = ' '.join(cmd)
    try:
        p = subprocess.run(cmd, cwd=GEN, capture_output=True, text=True, timeout=1500)
    except subprocess.TimeoutExpired:
        res.status = 'undecided'; res.reason = 'verus timeout'
        res.wall_s = time.time() - t0
        return res
    res.wall_s = time.time() - t0
    try:
        out = json.loads(p.stdout)
    except Exception:
        out = None
    diags = []
    for ln in p.stderr.split('\n'):
        ln = ln.strip()
        if ln.startswith('{'):
            try:
                diags.append(json.loads(ln))
            except Exception:
                pass
    res.raw_stderr = p.stderr
    # map gen line -> fn meta
    fn_metas = [m for m in metas if m['mode'] == 'verified']
    for m in fn_metas:
        res.fn_results[m['name']] = dict(success=True, errors=[], undecided=False, time_ms=None, rlimit=None)

    def owner_of(line):
        for m in fn_metas:
            if m['gen_lines'][0] <= line <= m['gen_lines'][1]:
                return m
        return None

    compile_errors = []
    for d in diags:
        if d.get('level') != 'error':
            continue
        msg = d.get('message', '')
        if msg.startswith('aborting due to'):
            continue
        spans = d.get('spans', [])
        owners = []
        for sp in spans:
            if not sp.get('file_name', '').endswith(os.path.basename(gen)):
                continue
            o = owner_of(sp['line_start'])
            if o is not None:
                owners.append((sp.get('is_primary', False), o, sp))
        rendered = d.get('rendered', msg)
        is_smt = (d.get('code') is None) and any(k in msg for k in SMT_LEVEL) and not any(k in msg for k in UNDECIDED)
        is_undecided = any(k in msg for k in UNDECIDED)
        if not (is_smt or is_undecided):
            compile_errors.append(rendered)
            continue
        if not owners:
            res.other_errors.append(rendered)
            continue
        # attribute to the fn that contains a span (all spans of one SMT error lie in one fn, or the
        # primary lies in the callee's contract and a secondary in the caller: prefer the body/call site)
        # A `precondition not satisfied` has its primary at the call site -> caller. A `postcondition`
        # has primary on the ensures clause of the same fn.
        o = None
        for prim, oo, sp in owners:
            if prim:
                o = oo; break
        if o is None:
            o = owners[0][1]
        r = res.fn_results[o['name']]
        lines_src = []
        for prim, oo, sp in owners:
            if oo is o:
                # map generated line to source line if the text is verbatim source
                lines_src.append(dict(gen_line=sp['line_start'], text=' '.join(t['text'].strip() for t in sp.get('text', [])[:2]),
                                      label=sp.get('label')))
        r['errors'].append(dict(message=msg, rendered=rendered, where=lines_src))
        if is_undecided:
            r['undecided'] = True
        else:
            r['success'] = False
    if out is None or compile_errors or (out and out.get('verification-results', {}).get('encountered-vir-error')):
        # which extracted function do the front-end errors point into?
        res.compile_error_fns = []
        for d in diags:
            if d.get('level') != 'error':
                continue
            for sp in d.get('spans', []):
                o = owner_of(sp.get('line_start', 0))
                if o is not None and o['name'] not in res.compile_error_fns:
                    res.compile_error_fns.append(o['name'])
        res.status = 'undecided'
        res.reason = 'verus front end rejected the unit (unsupported construct / type error): ' + \
                     (compile_errors[0][:1500] if compile_errors else p.stderr[-1500:])
        return res
    res.verus_summary = out.get('verification-results', {})
    # per function timing / success from verus' own ledger
    expected = {}
    for m in fn_metas:
        own = m.get('owner')
        ty = None
        if own:
            mm = re.search(r'(\w+)(?:<[^>]*>)?\s*$', own)
            ty = mm.group(1) if mm else None
        expected.setdefault('%s::%s%s' % (unit, (ty + '::') if ty else '', m['vname']), []).append(m)
    seen = set()
    try:
        for mod in out['times-ms']['smt']['smt-run-module-times']:
            for f in mod.get('function-breakdown', []):
                ms = expected.get(f['function'])
                if not ms:
                    continue
                for m in ms:      # several trait impls (From<A>, From<B>) share one Verus name
                    seen.add(m['name'])
                    r = res.fn_results[m['name']]
                    if len(ms) == 1:
                        r['time_ms'] = f.get('time'); r['rlimit'] = f.get('rlimit')
                    r['verus_name'] = f['function']
                    if not f.get('success', True) and r['success'] and not r['undecided'] and \
                            not any((not res.fn_results[x['name']]['success']) for x in ms):
                        r['undecided'] = True
                        r['errors'].append(dict(message='verus reports failure without attributable diagnostic', rendered='', where=[]))
    except (KeyError, TypeError):
        pass
    # a function whose obligations are trivial gets no SMT query of its own; it is still listed in func-details
    details = set((out.get('func-details') or {}).keys())
    for name_, ms in expected.items():
        for m in ms:
            if m['name'] not in seen and name_ in details:
                seen.add(m['name'])
                res.fn_results[m['name']]['trivial'] = True
    res.unseen = [k for k in res.fn_results if k not in seen]
    if res.other_errors:
        # a lemma or a preamble item failed: machinery problem, never a property violation
        res.status = 'undecided'
        res.reason = 'error outside extracted functions: ' + res.other_errors[0][:1500]
    n_err = res.verus_summary.get('errors', 0)
    attributed = sum(1 for r in res.fn_results.values() if (not r['success']) or r['undecided'])
    if n_err and not attributed and res.status == 'ok':
        res.status = 'undecided'; res.reason = 'verus reported %d errors that could not be attributed' % n_err
    try:
        os.remove(gen)
    except OSError:
        pass
    return res


def run_unit(unit, repo=None, rlimit=None, extra_args=()):
    """assemble + verify one unit.  If the front end rejects the unit because the overlay of some
    function no longer fits its (changed) text, that function is demoted to its assumed rendering
    (reported as undecided) and the rest of the unit is still decided."""
    demote = []
    for _round in range(5):
        res = _run_unit_once(unit, demote=tuple(demote), rlimit=rlimit, extra_args=extra_args)
        bad = getattr(res, 'compile_error_fns', [])
        new = [b for b in bad if b not in demote]
        if res.status == 'ok' or not new:
            break
        demote += new
    res.demoted = list(demote)
    if res.status == 'ok':
        for m in res.metas:
            if m.get('demoted'):
                res.fn_results[m['name']] = dict(success=True, undecided=True, time_ms=None, rlimit=None,
                                                 errors=[dict(message='overlay no longer fits this function (%s); not decided' % (m.get('assemble_error') or 'front end rejected it'), rendered='', where=[])])
                m['mode'] = 'verified'   # still an obligation of the property, but undecided
    return res
