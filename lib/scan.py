"""Frame scan: the mechanical half of the frame condition behind the assumed native-word contract.

Machine state (data stack, return stack, loop stack, vector-builder marks, heap, reverse log,
instruction pointer) and the resource counters may only be written by the functions that are
under a Verus contract (the recording primitives) or by the reviewed exceptions in
contracts/frame_allow.txt.  Every other function of src/*.rs must reach them through those
functions.  One obligation per scanned function; reads are not restricted."""
import os, re
from rustscan import Source, ScanError

MUTATORS = {'push', 'pop', 'swap', 'truncate', 'clear', 'insert', 'remove', 'swap_remove', 'split_off', 'drain',
            'retain', 'last_mut', 'first_mut', 'get_mut', 'iter_mut', 'as_mut', 'take', 'replace', 'append',
            'extend', 'extend_from_slice', 'resize', 'resize_with', 'sort', 'reverse', 'dedup', 'as_mut_slice',
            'push_back_mut', 'set_mut', 'drop_last_mut', 'insert_mut', 'remove_mut', 'rotate_left', 'rotate_right',
            'fill', 'copy_from_slice', 'clone_from', 'get_or_insert', 'get_or_insert_with', 'insert_with'}

FIELDS = {
    'C02': ['data_stack', 'return_stack', 'loops', 'special', 'heap', 'reverse_log', 'ctx'],
    'C14': ['data_stack', 'heap', 'insn_meter', 'insn_limit', 'stack_limit', 'heap_limit'],
}


def functions(src):
    """yield (qualified name, body_lo_ci, body_hi_ci, line) for every fn outside #[cfg(test)] modules"""
    m = src.matches()

    def walk(lo, hi, owner):
        for (s, b, e) in src.top_items(lo, hi):
            if b >= e:
                continue
            attrs = ' '.join(src.ctext(k) for k in range(s, b))
            head = [src.ctext(k) for k in range(b, min(e, b + 12))]
            # find the first '{' of the item
            k = b
            while k < e and src.ctext(k) != '{' and src.ctext(k) != ';':
                if src.ctext(k) in '([':
                    k = m[k] + 1
                else:
                    k += 1
            if k >= e or src.ctext(k) == ';':
                continue
            if 'mod' in head[:3]:
                if 'cfg' in attrs and 'test' in attrs:
                    continue
                name = head[head.index('mod') + 1]
                yield from walk(k + 1, m[k], owner)
            elif 'impl' in head[:1]:
                a = src.toks[src.code[b]][1]; z = src.toks[src.code[k]][1]
                hdr = re.sub(r'\s+', ' ', src.text[a:z]).strip()
                mm = re.search(r'(\w+)(?:<[^>]*>)?\s*$', hdr)
                yield from walk(k + 1, m[k], mm.group(1) if mm else hdr)
            elif 'fn' in head[:6]:
                name = head[head.index('fn') + 1]
                q = (owner + '::' if owner else '::') + name
                yield (q, k, m[k], src.line_of(src.toks[src.code[b]][1]))
            elif 'macro_rules' in head[:1]:
                continue

    yield from walk(0, len(src.code), None)


def scan_fn(src, lo, hi, fields):
    """-> list of (line, snippet) of writes to the given State fields between code indexes lo..hi"""
    m = src.matches()
    T = src.ctext
    hits = []
    for ci in range(lo + 1, hi):
        if T(ci) not in fields or T(ci - 1) != '.':
            continue
        f = T(ci)
        off = src.toks[src.code[ci]][1]
        line = src.line_of(off)
        lstart = src.text.rfind('\n', 0, off) + 1
        lend = src.text.find('\n', off)
        snippet = src.text[lstart:lend].strip()
        # &mut <path>.FIELD
        p = ci - 1
        while p - 2 >= lo and T(p - 1) not in ('&',) and src.toks[src.code[p - 1]][0] == 'ident' and T(p - 2) == '.':
            p -= 2
        # p-1 is the base ident of the path; before it may be `&` `mut`
        base = p - 1
        if base - 2 >= lo and T(base - 1) == 'mut' and T(base - 2) == '&':
            hits.append((line, '&mut borrow: ' + snippet)); continue
        # walk forward over the access path:  .FIELD ( [..] | .ident )*  then a mutator call or an assignment
        k = ci + 1
        mutated = False
        sub_ip_only = False
        first_sub = None
        while k < hi:
            t = T(k)
            if t == '[':
                k = m[k] + 1; continue
            if t == '.' and k + 1 < hi and src.toks[src.code[k + 1]][0] in ('ident', 'num'):
                name = T(k + 1)
                if first_sub is None:
                    first_sub = name
                if k + 2 < hi and T(k + 2) == '(':
                    if name in MUTATORS:
                        mutated = True
                    break
                k += 2; continue
            if t == '=' and not (k + 1 < hi and T(k + 1) == '=') and T(k - 1) not in ('=', '!', '<', '>'):
                mutated = True
            elif t in ('+', '-', '*', '/', '|', '&', '^') and k + 1 < hi and T(k + 1) == '=' and src.toks[src.code[k]][2] == src.toks[src.code[k + 1]][1]:
                mutated = True
            break
        if f == 'ctx' and mutated and first_sub is not None and first_sub != 'ip':
            # ctx.<mark> = ..  is context bookkeeping, not machine state; only ctx.ip and ctx itself count
            continue
        if mutated:
            hits.append((line, snippet))
    return hits


def frame_scan(repo, prop, verified_fns, allow):
    """-> list of dict(id, fn, file, line, status, detail)"""
    out = []
    fields = set(FIELDS[prop])
    srcdir = os.path.join(repo, 'src')
    for fname in sorted(os.listdir(srcdir)):
        if not fname.endswith('.rs'):
            continue
        rel = 'src/' + fname
        try:
            src = Source(os.path.join(srcdir, fname))
            fns = list(functions(src))
        except ScanError as e:
            out.append(dict(id='%s/frame/%s' % (prop, rel), fn='*', file=rel, line=0, status='undecided', detail='cannot scan: %s' % e))
            continue
        for (q, lo, hi, line) in fns:
            key = '%s %s' % (rel, q)
            hits = scan_fn(src, lo, hi, fields)
            oid = '%s/frame/%s/%s' % (prop, fname[:-3], q.strip(':').replace('::', '.'))
            if key in verified_fns:
                continue            # under contract: its writes are proved, not scanned
            if key in allow:
                if hits:
                    out.append(dict(id=oid, fn=q, file=rel, line=line, status='allowed', detail=allow[key]))
                continue
            if hits:
                out.append(dict(id=oid, fn=q, file=rel, line=line, status='failed',
                                detail='writes machine state outside the functions under contract: ' +
                                       '; '.join('line %d: %s' % h for h in hits[:3])))
            else:
                out.append(dict(id=oid, fn=q, file=rel, line=line, status='ok', detail=''))
    return out


def load_allow(path):
    allow = {}
    if os.path.exists(path):
        for ln in open(path):
            ln = ln.strip()
            if not ln or ln.startswith('#'):
                continue
            m = re.match(r'^(\S+)\s+(\S+)\s+(.*)$', ln)
            if m:
                allow['%s %s' % (m.group(1), m.group(2))] = m.group(3)
    return allow
